//! apiprobe: the libxcp / libfs API seam, explored under xsup exactly like the CLI.
//!
//!   apiprobe copy <driver> <workers> <bsize|max> <chan|rec|noop> <dest> <src>...
//!   apiprobe extents <file> <scratch-out>
//!   apiprobe merge-all <U> [shared]
use std::fs::File;
use std::path::PathBuf;
use std::sync::{Arc, Mutex};

use libfs::Extent;
use libxcp::config::Config;
use libxcp::drivers::{load_driver, Drivers};
use libxcp::errors::Result;
use libxcp::feedback::{ChannelUpdater, NoopUpdater, StatusUpdate, StatusUpdater};

fn mark(tag: &str) {
    // a harmless ENOENT stat the supervisor recognises: orders this event against the data-moving calls
    let _ = std::fs::metadata(format!("/.xcp-verif-point/{}", tag));
}

fn render(u: &StatusUpdate) -> String {
    match u {
        StatusUpdate::Copied(n) => format!("C{}", n),
        StatusUpdate::Size(n) => format!("S{}", n),
        StatusUpdate::Error(e) => format!("E{}", e.to_string().replace('\n', " ")),
    }
}

struct Rec(Mutex<Vec<String>>);
impl StatusUpdater for Rec {
    fn send(&self, u: StatusUpdate) -> Result<()> {
        let s = render(&u);
        let mut g = self.0.lock().unwrap();
        mark(&format!("upd/{}", s.chars().take(40).collect::<String>()));
        g.push(s);
        Ok(())
    }
}

fn cmd_copy(a: &[String]) {
    let drv: Drivers = a[0].parse().expect("driver");
    let mut cfg = Config::default();
    cfg.workers = a[1].parse().expect("workers");
    cfg.block_size = if a[2] == "max" { u64::MAX } else { a[2].parse().expect("bsize") };
    let mode = a[3].as_str();
    let dest = PathBuf::from(&a[4]);
    let sources: Vec<PathBuf> = a[5..].iter().map(PathBuf::from).collect();
    let cfg = Arc::new(cfg);
    let d = load_driver(drv, &cfg).expect("load driver");
    match mode {
        "chan" => {
            let upd = ChannelUpdater::new(&cfg);
            let rx = upd.rx_channel();
            let stats: Arc<dyn StatusUpdater> = Arc::new(upd);
            let h = std::thread::spawn(move || d.copy(sources, &dest, stats));
            for u in rx {
                let s = render(&u);
                mark(&format!("rcv/{}", s.chars().take(40).collect::<String>()));
                println!("UPD {}", s);
            }
            println!("CHANNEL-CLOSED");
            match h.join() {
                Ok(Ok(())) => println!("COPY-RETURNED ok"),
                Ok(Err(e)) => println!("COPY-RETURNED err {}", e.to_string().replace('\n', " ")),
                Err(_) => println!("COPY-RETURNED panic"),
            }
        }
        "rec" => {
            let rec = Arc::new(Rec(Mutex::new(vec![])));
            let stats: Arc<dyn StatusUpdater> = rec.clone();
            let r = d.copy(sources, &dest, stats);
            for s in rec.0.lock().unwrap().iter() {
                println!("UPD {}", s);
            }
            match r {
                Ok(()) => println!("COPY-RETURNED ok"),
                Err(e) => println!("COPY-RETURNED err {}", e.to_string().replace('\n', " ")),
            }
        }
        _ => {
            let stats: Arc<dyn StatusUpdater> = Arc::new(NoopUpdater);
            match d.copy(sources, &dest, stats) {
                Ok(()) => println!("COPY-RETURNED ok"),
                Err(e) => println!("COPY-RETURNED err {}", e.to_string().replace('\n', " ")),
            }
        }
    }
}

fn fmt_ext(v: &[Extent]) -> String {
    v.iter().map(|e| format!("{}-{}{}", e.start, e.end, if e.shared { "s" } else { "" })).collect::<Vec<_>>().join(",")
}

fn cmd_extents(a: &[String]) {
    let f = File::open(&a[0]).expect("open");
    let out = File::options().write(true).create(true).truncate(false).open(&a[1]).expect("scratch");
    match libfs::probably_sparse(&f) {
        Ok(b) => println!("sparse {}", b),
        Err(e) => println!("sparse error {}", e),
    }
    match libfs::map_extents(&f) {
        Ok(None) => println!("extents none"),
        Ok(Some(v)) => {
            println!("extents {}", fmt_ext(&v));
            match libfs::merge_extents(v) {
                Ok(m) => println!("merged {}", fmt_ext(&m)),
                Err(e) => println!("merged error {}", e),
            }
        }
        Err(e) => println!("extents error {}", e),
    }
    let len = f.metadata().unwrap().len();
    let mut pos = 0;
    let mut segs = vec![];
    let mut guard = 0;
    while pos < len {
        match libfs::next_sparse_segments(&f, &out, pos) {
            Ok((d, h)) => {
                segs.push(format!("{}-{}", d, h));
                if h <= pos {
                    println!("segments-stuck {}", pos);
                    break;
                }
                pos = h;
            }
            Err(e) => {
                println!("segments error {}", e);
                break;
            }
        }
        guard += 1;
        if guard > 100000 {
            println!("segments-stuck {}", pos);
            break;
        }
    }
    println!("segments {}", segs.join(","));
    println!("len {}", len);
}

/// every sorted, non-overlapping extent list over 0..U (ends exclusive, as map_extents produces them)
/// through the real merge_extents; prints one line per list: input => output
fn cmd_merge_all(a: &[String]) {
    let u: u64 = a[0].parse().expect("U");
    let shared = a.get(1).map(|s| s == "shared").unwrap_or(false);
    fn rec(u: u64, from: u64, cur: &mut Vec<(u64, u64)>, shared: bool, count: &mut u64) {
        // emit current list (with every shared-flag vector if requested)
        let nflags = if shared { 1u64 << cur.len().min(6) } else { 1 };
        for fl in 0..nflags {
            let input: Vec<Extent> = cur.iter().enumerate().map(|(i, &(s, e))| Extent { start: s, end: e, shared: (fl >> i) & 1 == 1 }).collect();
            let shown = fmt_ext(&input);
            match libfs::merge_extents(input) {
                Ok(m) => println!("{} => {}", shown, fmt_ext(&m)),
                Err(e) => println!("{} => error {}", shown, e),
            }
            *count += 1;
        }
        for s in from..u {
            for e in (s + 1)..=u {
                cur.push((s, e));
                rec(u, e, cur, shared, count);
                cur.pop();
            }
        }
    }
    let mut count = 0;
    rec(u, 0, &mut vec![], shared, &mut count);
    println!("lists {}", count);
}

/// every list sorted by start (extents may touch, overlap or nest) over 0..U with at most `maxlen` extents
fn cmd_merge_any(a: &[String]) {
    let u: u64 = a[0].parse().expect("U");
    let maxlen: usize = a[1].parse().expect("maxlen");
    fn rec(u: u64, from: u64, maxlen: usize, cur: &mut Vec<(u64, u64)>, count: &mut u64) {
        let input: Vec<Extent> = cur.iter().map(|&(s, e)| Extent { start: s, end: e, shared: false }).collect();
        let shown = fmt_ext(&input);
        match libfs::merge_extents(input) {
            Ok(m) => println!("{} => {}", shown, fmt_ext(&m)),
            Err(e) => println!("{} => error {}", shown, e),
        }
        *count += 1;
        if cur.len() == maxlen {
            return;
        }
        for s in from..u {
            for e in (s + 1)..=u {
                cur.push((s, e));
                rec(u, s, maxlen, cur, count);
                cur.pop();
            }
        }
    }
    let mut count = 0;
    rec(u, 0, maxlen, &mut vec![], &mut count);
    println!("lists {}", count);
}

fn main() {
    let a: Vec<String> = std::env::args().collect();
    match a.get(1).map(|s| s.as_str()) {
        Some("copy") => cmd_copy(&a[2..]),
        Some("extents") => cmd_extents(&a[2..]),
        Some("merge-all") => cmd_merge_all(&a[2..]),
        Some("merge-any") => cmd_merge_any(&a[2..]),
        _ => {
            eprintln!("usage: apiprobe copy|extents|merge-all ...");
            std::process::exit(2);
        }
    }
}
