//! xsup: a stateless model checker's execution engine for a real multi-threaded Linux binary.
//!
//! The tracee is ptrace'd; every thread is stopped at every system-call entry; at most one thread
//! runs at a time; futex is emulated so the supervisor knows who is runnable; the supervisor decides
//! who runs next (base policy + forced deviations), what the kernel answers (errno injection,
//! length clamps, emulated success) and whether the process is killed at a decision point.
//! See DESIGN.md section 3.1.

use serde::{Deserialize, Serialize};
use std::collections::HashMap;
use std::ffi::CString;
use std::os::unix::fs::FileExt;
use std::sync::atomic::{AtomicI32, AtomicU64, Ordering};

type Pid = libc::pid_t;

pub const MARK_PREFIX: &[u8] = b"/.xcp-verif-point/";
const FICLONE: u64 = 0x40049409;
const FICLONERANGE: u64 = 0x4020940d;
const FIEMAP: u64 = 0xc020660b;
const PTRACE_GET_SYSCALL_INFO: libc::c_uint = 0x420e;

// ---------------------------------------------------------------------------------------------
// public types

#[derive(Clone, Debug, Serialize, Deserialize, PartialEq)]
pub enum Policy {
    /// keep running the current thread; otherwise the smallest thread path id
    P0,
    /// keep running the current thread; otherwise the largest thread path id
    P1,
    /// strict static priorities (pre-emptive): patterns over thread path ids, highest priority first.
    /// A pattern is an exact path id ("0.1") or a prefix with ".*" ("0.1.1.*").
    Prio(Vec<String>),
    /// round robin: after every step the next enabled thread in creation order (everybody advances evenly, so
    /// whatever each thread holds on to is held by all of them at once: the schedule of resource peaks)
    RR,
    /// static priorities like `Prio`, but threads of equal rank (in particular all threads no pattern names) take
    /// turns: the producers run ahead as the order says, and whoever is left advances evenly
    PrioRR(Vec<String>),
    /// like P1, but a thread that yields keeps the processor, as it does on a machine with idle cores: consumers
    /// run through their back-off and really go to sleep on an empty queue, and are woken item by item (under
    /// P0 and P1 a yielding thread steps aside, so a consumer hardly ever gets as far as sleeping). After 20
    /// yields in a row a thread steps aside here too (a spin-wait on another thread must not starve it).
    P2,
    /// `Prio` with P2's treatment of yields: a thread of higher priority that was woken really runs at once and
    /// really goes back to sleep (under `Prio` a consumer polling an empty queue steps aside instead)
    PrioEager(Vec<String>),
}

#[derive(Clone, Debug, Serialize, Deserialize, PartialEq)]
pub enum Action {
    /// do not execute the call; answer -errno
    Errno(i32),
    /// lower the length argument of a data-moving call to at most this many bytes
    Clamp(u64),
    /// do not execute the call; answer 0 (for FICLONE: after making dest content equal source)
    EmulateOk,
    /// hold the thread at this call (it is not runnable) until no other thread can run: one stalled thread
    Hold,
}

#[derive(Clone, Debug, Serialize, Deserialize, PartialEq)]
pub struct Fault {
    /// event name ("copy_file_range", "openat", "ioctl:FICLONE", ...) or "DATA" for any data-moving call
    pub call: String,
    /// thread path id; None = any thread (occurrences are then counted globally)
    pub thread: Option<String>,
    /// 1-based occurrence among the matching calls; None = every occurrence
    pub nth: Option<usize>,
    /// only calls whose sandbox-relative subject contains this text
    pub path_contains: Option<String>,
    pub action: Action,
}

#[derive(Clone, Debug, Serialize, Deserialize)]
pub struct RunSpec {
    pub policy: Policy,
    /// forced deviations: (decision index, thread path id)
    pub devs: Vec<(usize, String)>,
    pub faults: Vec<Fault>,
    /// SIGKILL the process at this decision index (before the chosen thread's pending call)
    pub kill_at: Option<usize>,
    pub step_limit: usize,
}

impl RunSpec {
    pub fn base(policy: Policy) -> RunSpec {
        RunSpec { policy, devs: vec![], faults: vec![], kill_at: None, step_limit: 60_000 }
    }
}

#[derive(Clone, Debug, Serialize, Deserialize, PartialEq)]
pub enum Outcome {
    Exited(i32),
    Signaled(i32),
    Killed,
    Deadlock,
    StepLimit,
    KernelBlocked(String),
}

impl Outcome {
    pub fn is_hang(&self) -> bool {
        matches!(self, Outcome::Deadlock | Outcome::StepLimit | Outcome::KernelBlocked(_))
    }
    pub fn ok(&self) -> bool {
        *self == Outcome::Exited(0)
    }
    pub fn short(&self) -> String {
        match self {
            Outcome::Exited(c) => format!("exit{}", c),
            Outcome::Signaled(s) => format!("sig{}", s),
            Outcome::Killed => "killed".into(),
            Outcome::Deadlock => "DEADLOCK".into(),
            Outcome::StepLimit => "STEPLIMIT".into(),
            Outcome::KernelBlocked(c) => format!("KERNELBLOCKED({})", c),
        }
    }
}

/// One executed visible system call (or pseudo event), in the total order of the execution.
#[derive(Clone, Debug, Serialize, Deserialize)]
pub struct Ev {
    /// decision index at which it was executed
    pub idx: usize,
    /// thread (index into RunResult.threads)
    pub th: usize,
    pub name: String,
    /// raw path argument(s), escaped
    pub path: Option<String>,
    pub path2: Option<String>,
    /// sandbox-relative subject(s): for two-file data calls rel = source, rel2 = destination
    pub rel: Option<String>,
    pub rel2: Option<String>,
    pub fd: i32,
    pub fd2: i32,
    pub ino: u64,
    pub ino2: u64,
    pub a: [u64; 6],
    pub ret: i64,
    /// 0 = executed by the kernel, 1 = errno injected, 2 = length clamped (then executed), 3 = emulated
    pub inj: u8,
}

impl Ev {
    pub fn is_data_move(&self) -> bool {
        matches!(self.name.as_str(), "read" | "write" | "pread64" | "pwrite64" | "copy_file_range" | "sendfile" | "readv" | "writev" | "preadv" | "pwritev" | "splice")
    }
    /// inode and sandbox-relative path of the file whose data this call writes, if it is a write-class call
    pub fn write_target(&self) -> Option<(u64, &str)> {
        match self.name.as_str() {
            "write" | "pwrite64" | "writev" | "pwritev" | "ftruncate" | "fallocate" => Some((self.ino, self.rel.as_deref().unwrap_or(""))),
            "copy_file_range" | "sendfile" | "splice" | "ioctl:FICLONE" | "ioctl:FICLONERANGE" => Some((self.ino2, self.rel2.as_deref().unwrap_or(""))),
            _ => None,
        }
    }
    pub fn brief(&self) -> String {
        let mut s = format!("{}", self.name);
        if let Some(r) = &self.rel {
            s.push_str(&format!(" {}", r));
        } else if let Some(p) = &self.path {
            s.push_str(&format!(" {}", p));
        }
        if let Some(r) = &self.rel2 {
            s.push_str(&format!(" -> {}", r));
        }
        s.push_str(&format!(" = {}", self.ret));
        if self.inj != 0 {
            s.push_str(["", " [INJ]", " [CLAMP]", " [EMU]"][self.inj as usize]);
        }
        s
    }
}

#[derive(Clone, Debug, Serialize, Deserialize)]
pub struct Dec {
    pub enabled: Vec<usize>,
    pub default: usize,
    pub chosen: usize,
    /// those of `enabled` that are not runnable but sit in a wait with a timeout (choosing one lets the timer land first)
    #[serde(default)]
    pub timers: Vec<usize>,
}

#[derive(Clone, Debug)]
pub struct RunResult {
    pub outcome: Outcome,
    pub events: Vec<Ev>,
    pub decisions: Vec<Dec>,
    /// thread path ids, index = thread number used in events/decisions
    pub threads: Vec<String>,
    pub peak_fds: i64,
    pub peak_sandbox_fds: i64,
    pub steps: usize,
    pub stops: usize,
    /// how many times each fault spec fired
    pub fault_hits: Vec<usize>,
    /// "call subject" of every call that was altered by a fault
    pub hit_sites: Vec<String>,
    pub stdout: Vec<u8>,
    pub stderr: Vec<u8>,
    /// the wall-clock watchdog killed the tracee (one real system call did not return within the cap). This
    /// says something about the machine (overload, an I/O stall), not about the program, unless it repeats:
    /// callers re-run such an execution before believing it.
    pub watchdog: bool,
}

impl RunResult {
    pub fn trace_lines(&self) -> Vec<String> {
        self.events.iter().map(|e| format!("#{} T{} {}", e.idx, self.threads[e.th], e.brief())).collect()
    }
    /// hash of the schedule-visible trace (thread path, call, subject, result); inode numbers excluded
    pub fn trace_hash(&self) -> u64 {
        let mut h = crate::util::Fnv::new();
        for e in &self.events {
            h.write(self.threads[e.th].as_bytes());
            h.write(e.name.as_bytes());
            if let Some(r) = &e.rel {
                h.write(r.as_bytes());
            }
            if let Some(r) = &e.rel2 {
                h.write(r.as_bytes());
            }
            h.write(&e.ret.to_le_bytes());
        }
        h.finish()
    }
}

pub struct Launch {
    pub exe: String,
    /// argv[1..]
    pub args: Vec<Vec<u8>>,
    /// absolute working directory of the tracee (inside root)
    pub cwd: String,
    /// absolute sandbox root: paths under it are visible
    pub root: String,
    pub umask: u32,
    pub nofile: Option<u64>,
    /// file paths receiving stdout / stderr (outside the sandbox)
    pub stdout_path: String,
    pub stderr_path: String,
    /// watchdog slot
    pub slot: usize,
    /// drop to this (uid, gid) before exec
    pub run_as: Option<(u32, u32)>,
    /// file-relative addresses of instructions to stop before (atomic read-modify-write instructions of the
    /// program's own code): each becomes a decision point. Empty = system-call grain only.
    pub breakpoints: Vec<u64>,
}

// ---------------------------------------------------------------------------------------------
// watchdog for threads stuck in a real kernel call

pub const NSLOTS: usize = 64;
struct Slot {
    pid: AtomicI32,
    since_ms: AtomicU64,
    /// 0 = quiet, 1 = killed because a call did not return (stall or real block), 2 = killed because the thread
    /// burned SPIN_CPU_MS of processor time without reaching a system call
    fired: AtomicI32,
    /// the task being waited for, and its processor time (clock ticks) when the wait began
    tid: AtomicI32,
    cpu0: AtomicU64,
    /// watchdog's own: processor time seen at the last tick, and the tick at which it last moved
    last_cpu: AtomicU64,
    moved_at: AtomicU64,
}
#[allow(clippy::declare_interior_mutable_const)]
const SLOT0: Slot = Slot { pid: AtomicI32::new(0), since_ms: AtomicU64::new(0), fired: AtomicI32::new(0), tid: AtomicI32::new(0), cpu0: AtomicU64::new(0), last_cpu: AtomicU64::new(0), moved_at: AtomicU64::new(0) };
/// a thread that computes this long without any system call is spinning (xcp does nothing of the kind)
pub const SPIN_CPU_MS: u64 = 3_000;

/// user + system time of one task in clock ticks (fields 14 and 15 of /proc/<pid>/task/<tid>/stat)
fn task_cpu_ticks(pid: i32, tid: i32) -> Option<u64> {
    let st = std::fs::read_to_string(format!("/proc/{}/task/{}/stat", pid, tid)).ok()?;
    let rest = &st[st.rfind(')')? + 2..];
    let f: Vec<&str> = rest.split(' ').collect();
    Some(f.get(11)?.parse::<u64>().ok()? + f.get(12)?.parse::<u64>().ok()?)
}
static SLOTS: [Slot; NSLOTS] = [SLOT0; NSLOTS];
static WATCHDOG_STARTED: AtomicI32 = AtomicI32::new(0);
pub static KERNEL_WAIT_CAP_MS: AtomicU64 = AtomicU64::new(20_000);

/// watchdog ticks since start (+1 so that 0 keeps meaning "not waiting")
static TICKS: AtomicU64 = AtomicU64::new(1);
fn now_ms() -> u64 {
    TICKS.load(Ordering::SeqCst)
}

/// a forked worker process has no watchdog thread yet
pub fn after_fork_in_worker() {
    WATCHDOG_STARTED.store(0, Ordering::SeqCst);
}

/// Pin the calling process (and the tracees it will fork) to one CPU. Tracer and tracee never run
/// at the same time, so sharing a core costs nothing, and every ptrace stop becomes a local context
/// switch instead of a cross-CPU wake-up (which is very expensive inside a VM).
pub fn pin_to_cpu(k: usize) {
    unsafe {
        let ncpu = libc::sysconf(libc::_SC_NPROCESSORS_ONLN).max(1) as usize;
        let mut set: libc::cpu_set_t = std::mem::zeroed();
        libc::CPU_SET(k % ncpu, &mut set);
        libc::sched_setaffinity(0, std::mem::size_of::<libc::cpu_set_t>(), &set);
    }
}

pub fn start_watchdog() {
    if WATCHDOG_STARTED.swap(1, Ordering::SeqCst) != 0 {
        return;
    }
    // XV_KERNEL_CAP_MS: only for exercising the re-run path of the harness itself
    if let Some(ms) = std::env::var("XV_KERNEL_CAP_MS").ok().and_then(|s| s.parse::<u64>().ok()) {
        KERNEL_WAIT_CAP_MS.store(ms, Ordering::Relaxed);
    }
    // Time is counted in the watchdog's own 250 ms ticks, not read from a clock: a pause of the whole machine
    // (a VM snapshot, a long stall) then costs one tick instead of looking like a call that never returned.
    std::thread::spawn(|| loop {
        std::thread::sleep(std::time::Duration::from_millis(250));
        let now = TICKS.fetch_add(1, Ordering::SeqCst) + 1;
        let cap = KERNEL_WAIT_CAP_MS.load(Ordering::Relaxed) / 250 + 1;
        for s in SLOTS.iter() {
            let since = s.since_ms.load(Ordering::SeqCst);
            let pid = s.pid.load(Ordering::SeqCst);
            if since != 0 && pid > 0 && s.fired.load(Ordering::SeqCst) == 0 {
                // A thread that is computing (its processor time moves) is not stuck in the kernel, however slowly it
                // gets on under load: it is left alone until it has burned SPIN_CPU_MS without a system call, which
                // is a spin. Only a thread whose processor time stands still for the whole cap counts as blocked.
                let tid = s.tid.load(Ordering::SeqCst);
                let hz = unsafe { libc::sysconf(libc::_SC_CLK_TCK) }.max(1) as u64;
                let cpu = if tid > 0 { task_cpu_ticks(pid, tid) } else { None };
                let cpu0 = s.cpu0.load(Ordering::SeqCst);
                if let Some(c) = cpu {
                    if c != s.last_cpu.load(Ordering::SeqCst) || s.moved_at.load(Ordering::SeqCst) < since {
                        s.last_cpu.store(c, Ordering::SeqCst);
                        s.moved_at.store(now, Ordering::SeqCst);
                    }
                }
                let spun = cpu.map(|c| c.saturating_sub(cpu0) * 1000 / hz >= SPIN_CPU_MS).unwrap_or(false);
                let still_since = s.moved_at.load(Ordering::SeqCst).max(since);
                if spun {
                    s.fired.store(2, Ordering::SeqCst);
                    unsafe { libc::kill(pid, libc::SIGKILL) };
                } else if now > still_since + cap || now > since + 40 * cap {
                    s.fired.store(1, Ordering::SeqCst);
                    unsafe { libc::kill(pid, libc::SIGKILL) };
                }
            }
        }
    });
}

// ---------------------------------------------------------------------------------------------
// supervisor internals

#[derive(Debug, Clone, PartialEq)]
enum St {
    Running,
    Ready,
    Blocked { addr: u64, timed: bool, seq: u64 },
    /// parked by a Hold action: released when nothing else is runnable
    Held,
    Dead,
}

#[derive(Debug, Clone)]
struct Th {
    tid: Pid,
    path: Vec<u32>,
    path_s: String,
    nspawned: u32,
    st: St,
    at_entry: bool,
    sysno: i64,
    args: [u64; 6],
    ctid: u64,
    yielded: bool,
    skip_ret: Option<i64>,
    reaped: bool,
    /// stopped before the atomic instruction at this runtime address
    at_bp: Option<u64>,
    /// when the timed wait this thread is blocked in would expire (real time)
    wait_deadline: Option<std::time::Instant>,
    /// sched_yield calls in a row
    yields: u32,
}

#[derive(Debug, Clone)]
struct FdInfo {
    rel: Option<String>,
    sandbox: bool,
    ino: u64,
    is_fifo: bool,
}

#[derive(Debug, Clone, Default)]
struct Proto {
    name: String,
    path: Option<Vec<u8>>,
    path2: Option<Vec<u8>>,
    rel: Option<String>,
    rel2: Option<String>,
    fd: i32,
    fd2: i32,
    ino: u64,
    ino2: u64,
    marker: bool,
}

enum Stop {
    Dead(i32),
    Syscall,
    Event(i32),
    Signal(i32),
    Breakpoint(u64),
}

pub struct Sup<'a> {
    l: &'a Launch,
    spec: &'a RunSpec,
    pid: Pid,
    th: Vec<Th>,
    mem: std::fs::File,
    events: Vec<Ev>,
    decisions: Vec<Dec>,
    cur: Option<usize>,
    pending_ctid: HashMap<usize, u64>,
    fds: HashMap<i32, FdInfo>,
    open_now: i64,
    open_peak: i64,
    sb_now: i64,
    sb_peak: i64,
    steps: usize,
    stops: usize,
    blockseq: u64,
    fault_counts: Vec<usize>,
    fault_hits: Vec<usize>,
    exit_status: Option<Outcome>,
    execd: bool,
    kernel_blocked: Option<String>,
    cwd_rel: String,
    stash: HashMap<Pid, i32>,
    /// runtime address -> original first byte of the instruction
    bps: HashMap<u64, u8>,
    base: u64,
}

macro_rules! bail {
    ($($a:tt)*) => { return Err(format!($($a)*)) };
}

fn ptrace(req: libc::c_uint, pid: Pid, addr: usize, data: usize) -> i64 {
    unsafe { libc::ptrace(req, pid, addr, data) as i64 }
}

fn getregs(tid: Pid) -> Result<libc::user_regs_struct, String> {
    let mut regs: libc::user_regs_struct = unsafe { std::mem::zeroed() };
    let r = ptrace(libc::PTRACE_GETREGS, tid, 0, &mut regs as *mut _ as usize);
    if r != 0 {
        bail!("PTRACE_GETREGS tid={} failed: {}", tid, std::io::Error::last_os_error());
    }
    Ok(regs)
}
fn setregs(tid: Pid, regs: &libc::user_regs_struct) -> Result<(), String> {
    let r = ptrace(libc::PTRACE_SETREGS, tid, 0, regs as *const _ as usize);
    if r != 0 {
        bail!("PTRACE_SETREGS tid={} failed: {}", tid, std::io::Error::last_os_error());
    }
    Ok(())
}

fn path_str(p: &[u32]) -> String {
    p.iter().map(|x| x.to_string()).collect::<Vec<_>>().join(".")
}

pub fn pattern_matches(pat: &str, path: &str) -> bool {
    if let Some(pre) = pat.strip_suffix(".*") {
        path.len() > pre.len() && path.starts_with(pre) && path.as_bytes()[pre.len()] == b'.'
    } else {
        pat == path
    }
}

/// lexical normalisation of an absolute path
fn normalize(p: &[u8]) -> Vec<u8> {
    let mut out: Vec<&[u8]> = vec![];
    for c in p.split(|&b| b == b'/') {
        if c.is_empty() || c == b"." {
            continue;
        }
        if c == b".." {
            out.pop();
            continue;
        }
        out.push(c);
    }
    let mut r = vec![];
    for c in out {
        r.push(b'/');
        r.extend_from_slice(c);
    }
    if r.is_empty() {
        r.push(b'/');
    }
    r
}

impl<'a> Sup<'a> {
    // ---- memory access
    fn read_bytes(&self, addr: u64, n: usize) -> Vec<u8> {
        let mut buf = vec![0u8; n];
        let mut got = 0;
        while got < n {
            match self.mem.read_at(&mut buf[got..], addr + got as u64) {
                Ok(0) | Err(_) => break,
                Ok(k) => got += k,
            }
        }
        buf.truncate(got);
        buf
    }
    fn read_cstr(&self, addr: u64) -> Option<Vec<u8>> {
        if addr == 0 {
            return None;
        }
        let mut out = vec![];
        let mut a = addr;
        loop {
            // read up to the end of the page to avoid crossing into an unmapped one
            let chunk = (4096 - (a % 4096)) as usize;
            let b = self.read_bytes(a, chunk);
            if b.is_empty() {
                return Some(out);
            }
            if let Some(z) = b.iter().position(|&c| c == 0) {
                out.extend_from_slice(&b[..z]);
                return Some(out);
            }
            out.extend_from_slice(&b);
            a += b.len() as u64;
            if out.len() > 8192 {
                return Some(out);
            }
        }
    }
    fn read_u32(&self, addr: u64) -> Result<u32, String> {
        let mut b = [0u8; 4];
        self.mem.read_exact_at(&mut b, addr).map_err(|e| format!("read futex word {:#x}: {}", addr, e))?;
        Ok(u32::from_ne_bytes(b))
    }
    fn read_u64(&self, addr: u64) -> Result<u64, String> {
        let mut b = [0u8; 8];
        self.mem.read_exact_at(&mut b, addr).map_err(|e| format!("read u64 {:#x}: {}", addr, e))?;
        Ok(u64::from_ne_bytes(b))
    }
    fn write_mem(&self, addr: u64, data: &[u8]) -> Result<(), String> {
        self.mem.write_all_at(data, addr).map_err(|e| format!("write tracee memory {:#x}: {}", addr, e))
    }

    // ---- path classification
    /// Some(rel) if the path lies inside the sandbox (rel is relative to the root, "" for the root itself)
    fn rel_of(&self, dirfd: i32, p: &[u8]) -> (bool, Option<String>) {
        let root = self.l.root.as_bytes();
        let abs: Vec<u8> = if p.first() == Some(&b'/') {
            p.to_vec()
        } else if dirfd == libc::AT_FDCWD {
            let mut v = self.l.cwd.as_bytes().to_vec();
            v.push(b'/');
            v.extend_from_slice(p);
            v
        } else {
            match self.fds.get(&dirfd) {
                Some(f) if f.sandbox => {
                    let mut v = root.to_vec();
                    v.push(b'/');
                    v.extend_from_slice(f.rel.clone().unwrap_or_default().as_bytes());
                    v.push(b'/');
                    v.extend_from_slice(p);
                    v
                }
                _ => return (false, None),
            }
        };
        let n = normalize(&abs);
        if n == root {
            return (true, Some(String::new()));
        }
        if n.len() > root.len() && n.starts_with(root) && n[root.len()] == b'/' {
            return (true, Some(crate::util::esc(&n[root.len() + 1..])));
        }
        // a relative path that climbs out of the sandbox is still the program's business
        if p.first() != Some(&b'/') {
            return (true, Some(format!("<outside>{}", crate::util::esc(&n))));
        }
        (false, None)
    }

    fn fd_vis(&self, fd: i32) -> bool {
        self.fds.get(&fd).map(|f| f.sandbox).unwrap_or(false)
    }
    fn fd_rel(&self, fd: i32) -> Option<String> {
        self.fds.get(&fd).and_then(|f| f.rel.clone())
    }
    fn fd_ino(&self, fd: i32) -> u64 {
        self.fds.get(&fd).map(|f| f.ino).unwrap_or(0)
    }

    /// classify the pending system call of thread i: Some(proto) if visible
    fn classify(&self, i: usize) -> Option<Proto> {
        let t = &self.th[i];
        let a = t.args;
        let n = t.sysno;
        let mut p = Proto { fd: -1, fd2: -1, ..Default::default() };
        let name: &str;
        macro_rules! path_at {
            ($nm:expr, $dirfd:expr, $parg:expr) => {{
                name = $nm;
                let pb = self.read_cstr($parg);
                let dirfd = $dirfd as i32;
                match pb {
                    Some(ref b) if b.starts_with(MARK_PREFIX) => {
                        p.marker = true;
                        p.path = Some(b[MARK_PREFIX.len()..].to_vec());
                    }
                    Some(ref b) if !b.is_empty() => {
                        let (vis, rel) = self.rel_of(dirfd, b);
                        if !vis {
                            return None;
                        }
                        p.rel = rel;
                        p.path = pb.clone();
                    }
                    _ => {
                        // NULL or empty path: acts on dirfd itself
                        if dirfd < 0 || !self.fd_vis(dirfd) {
                            return None;
                        }
                        p.fd = dirfd;
                        p.rel = self.fd_rel(dirfd);
                        p.ino = self.fd_ino(dirfd);
                    }
                }
            }};
        }
        macro_rules! two_paths {
            ($nm:expr, $d1:expr, $p1:expr, $d2:expr, $p2:expr) => {{
                name = $nm;
                let b1 = self.read_cstr($p1).unwrap_or_default();
                let b2 = self.read_cstr($p2).unwrap_or_default();
                let (v1, r1) = self.rel_of($d1 as i32, &b1);
                let (v2, r2) = self.rel_of($d2 as i32, &b2);
                if !v1 && !v2 {
                    return None;
                }
                p.rel = r1;
                p.rel2 = r2;
                p.path = Some(b1);
                p.path2 = Some(b2);
            }};
        }
        macro_rules! on_fd {
            ($nm:expr) => {{
                name = $nm;
                let fd = a[0] as i32;
                if !self.fd_vis(fd) {
                    return None;
                }
                p.fd = fd;
                p.rel = self.fd_rel(fd);
                p.ino = self.fd_ino(fd);
            }};
        }
        let cwd = libc::AT_FDCWD as i64 as u64;
        match n {
            libc::SYS_open => path_at!("open", cwd, a[0]),
            libc::SYS_creat => path_at!("creat", cwd, a[0]),
            libc::SYS_openat => path_at!("openat", a[0], a[1]),
            libc::SYS_openat2 => path_at!("openat2", a[0], a[1]),
            libc::SYS_stat => path_at!("stat", cwd, a[0]),
            libc::SYS_lstat => path_at!("lstat", cwd, a[0]),
            libc::SYS_access => path_at!("access", cwd, a[0]),
            libc::SYS_mkdir => path_at!("mkdir", cwd, a[0]),
            libc::SYS_rmdir => path_at!("rmdir", cwd, a[0]),
            libc::SYS_unlink => path_at!("unlink", cwd, a[0]),
            libc::SYS_readlink => path_at!("readlink", cwd, a[0]),
            libc::SYS_chmod => path_at!("chmod", cwd, a[0]),
            libc::SYS_chown => path_at!("chown", cwd, a[0]),
            libc::SYS_lchown => path_at!("lchown", cwd, a[0]),
            libc::SYS_truncate => path_at!("truncate", cwd, a[0]),
            libc::SYS_mknod => path_at!("mknod", cwd, a[0]),
            libc::SYS_utimes => path_at!("utimes", cwd, a[0]),
            libc::SYS_utime => path_at!("utime", cwd, a[0]),
            libc::SYS_chdir => path_at!("chdir", cwd, a[0]),
            libc::SYS_setxattr => path_at!("setxattr", cwd, a[0]),
            libc::SYS_lsetxattr => path_at!("lsetxattr", cwd, a[0]),
            libc::SYS_getxattr => path_at!("getxattr", cwd, a[0]),
            libc::SYS_lgetxattr => path_at!("lgetxattr", cwd, a[0]),
            libc::SYS_listxattr => path_at!("listxattr", cwd, a[0]),
            libc::SYS_llistxattr => path_at!("llistxattr", cwd, a[0]),
            libc::SYS_removexattr => path_at!("removexattr", cwd, a[0]),
            libc::SYS_lremovexattr => path_at!("lremovexattr", cwd, a[0]),
            libc::SYS_newfstatat => path_at!("newfstatat", a[0], a[1]),
            libc::SYS_statx => path_at!("statx", a[0], a[1]),
            libc::SYS_mkdirat => path_at!("mkdirat", a[0], a[1]),
            libc::SYS_mknodat => path_at!("mknodat", a[0], a[1]),
            libc::SYS_unlinkat => path_at!("unlinkat", a[0], a[1]),
            libc::SYS_readlinkat => path_at!("readlinkat", a[0], a[1]),
            libc::SYS_fchmodat => path_at!("fchmodat", a[0], a[1]),
            452 => path_at!("fchmodat2", a[0], a[1]),
            libc::SYS_fchownat => path_at!("fchownat", a[0], a[1]),
            libc::SYS_faccessat => path_at!("faccessat", a[0], a[1]),
            libc::SYS_faccessat2 => path_at!("faccessat2", a[0], a[1]),
            libc::SYS_utimensat => path_at!("utimensat", a[0], a[1]),
            libc::SYS_symlink => {
                name = "symlink";
                let tgt = self.read_cstr(a[0]).unwrap_or_default();
                let lp = self.read_cstr(a[1]).unwrap_or_default();
                let (v, r) = self.rel_of(libc::AT_FDCWD, &lp);
                if !v {
                    return None;
                }
                p.rel = r;
                p.path = Some(lp);
                p.path2 = Some(tgt);
            }
            libc::SYS_symlinkat => {
                name = "symlinkat";
                let tgt = self.read_cstr(a[0]).unwrap_or_default();
                let lp = self.read_cstr(a[2]).unwrap_or_default();
                let (v, r) = self.rel_of(a[1] as i32, &lp);
                if !v {
                    return None;
                }
                p.rel = r;
                p.path = Some(lp);
                p.path2 = Some(tgt);
            }
            libc::SYS_rename => two_paths!("rename", cwd, a[0], cwd, a[1]),
            libc::SYS_link => two_paths!("link", cwd, a[0], cwd, a[1]),
            libc::SYS_renameat => two_paths!("renameat", a[0], a[1], a[2], a[3]),
            libc::SYS_renameat2 => two_paths!("renameat2", a[0], a[1], a[2], a[3]),
            libc::SYS_linkat => two_paths!("linkat", a[0], a[1], a[2], a[3]),
            libc::SYS_read => on_fd!("read"),
            libc::SYS_write => {
                let fd = a[0] as i32;
                if (fd == 1 || fd == 2) && !self.fds.contains_key(&fd) {
                    // output of the program itself (log lines with -v, the client's printing): no effect on the
                    // sandbox, but a pre-emption point wherever the code logs
                    name = "write:stdio";
                    p.fd = fd;
                } else {
                    on_fd!("write")
                }
            }
            libc::SYS_pread64 => on_fd!("pread64"),
            libc::SYS_pwrite64 => on_fd!("pwrite64"),
            libc::SYS_readv => on_fd!("readv"),
            libc::SYS_writev => on_fd!("writev"),
            libc::SYS_preadv => on_fd!("preadv"),
            libc::SYS_pwritev => on_fd!("pwritev"),
            libc::SYS_lseek => {
                // SEEK_DATA / SEEK_HOLE are a facility of their own (a file system may not have them)
                on_fd!(match a[2] as i32 {
                    libc::SEEK_DATA => "lseek:DATA",
                    libc::SEEK_HOLE => "lseek:HOLE",
                    _ => "lseek",
                })
            }
            libc::SYS_ftruncate => on_fd!("ftruncate"),
            libc::SYS_fallocate => on_fd!("fallocate"),
            libc::SYS_fsync => on_fd!("fsync"),
            libc::SYS_fdatasync => on_fd!("fdatasync"),
            libc::SYS_sync_file_range => on_fd!("sync_file_range"),
            libc::SYS_fchmod => on_fd!("fchmod"),
            libc::SYS_fchown => on_fd!("fchown"),
            libc::SYS_fstat => on_fd!("fstat"),
            libc::SYS_getdents64 => on_fd!("getdents64"),
            libc::SYS_flistxattr => on_fd!("flistxattr"),
            libc::SYS_fgetxattr => on_fd!("fgetxattr"),
            libc::SYS_fsetxattr => on_fd!("fsetxattr"),
            libc::SYS_fremovexattr => on_fd!("fremovexattr"),
            libc::SYS_flock => on_fd!("flock"),
            libc::SYS_fchdir => on_fd!("fchdir"),
            libc::SYS_ioctl => {
                let fd = a[0] as i32;
                if !self.fd_vis(fd) {
                    return None;
                }
                let req = a[1] & 0xffff_ffff;
                if req == FICLONE || req == FICLONERANGE {
                    // (dest fd, FICLONE, src fd)
                    name = if req == FICLONE { "ioctl:FICLONE" } else { "ioctl:FICLONERANGE" };
                    p.fd2 = fd;
                    p.rel2 = self.fd_rel(fd);
                    p.ino2 = self.fd_ino(fd);
                    if req == FICLONE {
                        let s = a[2] as i32;
                        p.fd = s;
                        p.rel = self.fd_rel(s);
                        p.ino = self.fd_ino(s);
                    }
                } else {
                    name = if req == FIEMAP { "ioctl:FIEMAP" } else { "ioctl:other" };
                    p.fd = fd;
                    p.rel = self.fd_rel(fd);
                    p.ino = self.fd_ino(fd);
                }
            }
            libc::SYS_copy_file_range => {
                name = "copy_file_range";
                let (i_, o_) = (a[0] as i32, a[2] as i32);
                p.fd = i_;
                p.fd2 = o_;
                p.rel = self.fd_rel(i_);
                p.rel2 = self.fd_rel(o_);
                p.ino = self.fd_ino(i_);
                p.ino2 = self.fd_ino(o_);
            }
            libc::SYS_sendfile => {
                name = "sendfile";
                let (o_, i_) = (a[0] as i32, a[1] as i32);
                if !self.fd_vis(o_) && !self.fd_vis(i_) {
                    return None;
                }
                p.fd = i_;
                p.fd2 = o_;
                p.rel = self.fd_rel(i_);
                p.rel2 = self.fd_rel(o_);
                p.ino = self.fd_ino(i_);
                p.ino2 = self.fd_ino(o_);
            }
            libc::SYS_umask => name = "umask", // process-global state shared by all threads
            libc::SYS_futex => name = "futex",
            libc::SYS_clone => name = "clone",
            libc::SYS_clone3 => name = "clone3",
            libc::SYS_exit => name = "exit",
            libc::SYS_exit_group => name = "exit_group",
            libc::SYS_sched_yield => name = "sched_yield",
            libc::SYS_nanosleep => name = "nanosleep",
            libc::SYS_clock_nanosleep => name = "clock_nanosleep",
            _ => return None,
        }
        // a hook marker is not a stat of anything: it must not count as one when fault sites are matched
        p.name = if p.marker { "MARK".to_string() } else { name.to_string() };
        Some(p)
    }

    // ---- ptrace stepping
    /// Wait for the next stop of `tid`. Waits on *any* tracee task of this tracer thread
    /// (__WNOTHREAD keeps other harness workers' tracees out), so that a process that is dying
    /// (fatal signal, watchdog kill) can be collected without blocking on its leader.
    fn wait_tid(&mut self, tid: Pid) -> Result<i32, String> {
        if let Some(st) = self.stash.remove(&tid) {
            return Ok(st);
        }
        let slot = &SLOTS[self.l.slot % NSLOTS];
        slot.tid.store(tid, Ordering::SeqCst);
        slot.cpu0.store(task_cpu_ticks(self.pid, tid).unwrap_or(0), Ordering::SeqCst);
        slot.since_ms.store(now_ms(), Ordering::SeqCst);
        let r = loop {
            let mut status = 0;
            let r = unsafe { libc::waitpid(-1, &mut status, libc::__WALL | libc::__WNOTHREAD) };
            if r < 0 {
                let e = std::io::Error::last_os_error();
                if e.raw_os_error() == Some(libc::EINTR) {
                    continue;
                }
                break Err(format!("waitpid(any) while waiting for {} failed: {}", tid, e));
            }
            self.stops += 1;
            if r == tid {
                break Ok(status);
            }
            if libc::WIFSTOPPED(status) {
                // e.g. the initial stop of a clone child arriving before the parent's clone event
                self.stash.insert(r, status);
                continue;
            }
            // another task of the tracee died while `tid` was the only one running: the process is going down
            if let Some(j) = self.th.iter().position(|t| t.tid == r) {
                self.th[j].reaped = true;
                self.th[j].st = St::Dead;
            }
            if r == self.pid {
                self.exit_status = Some(if libc::WIFEXITED(status) { Outcome::Exited(libc::WEXITSTATUS(status)) } else { Outcome::Signaled(libc::WTERMSIG(status)) });
            } else if libc::WIFSIGNALED(status) && self.exit_status.is_none() {
                self.exit_status = Some(Outcome::Signaled(libc::WTERMSIG(status)));
            }
        };
        slot.since_ms.store(0, Ordering::SeqCst);
        r
    }

    fn next_stop(&mut self, i: usize, sig: i32) -> Result<Stop, String> {
        let tid = self.th[i].tid;
        if ptrace(libc::PTRACE_SYSCALL, tid, 0, sig as usize) != 0 {
            bail!("PTRACE_SYSCALL tid={} failed: {}", tid, std::io::Error::last_os_error());
        }
        let status = self.wait_tid(tid)?;
        if libc::WIFEXITED(status) || libc::WIFSIGNALED(status) {
            return Ok(Stop::Dead(status));
        }
        if !libc::WIFSTOPPED(status) {
            bail!("unexpected wait status {:#x}", status);
        }
        let sig = libc::WSTOPSIG(status);
        let event = (status >> 16) & 0xff;
        if sig == (libc::SIGTRAP | 0x80) {
            Ok(Stop::Syscall)
        } else if sig == libc::SIGTRAP && event != 0 {
            Ok(Stop::Event(event))
        } else if sig == libc::SIGTRAP && !self.bps.is_empty() {
            let regs = getregs(tid)?;
            if self.bps.contains_key(&(regs.rip.wrapping_sub(1))) {
                Ok(Stop::Breakpoint(regs.rip - 1))
            } else {
                Ok(Stop::Signal(sig))
            }
        } else {
            Ok(Stop::Signal(sig))
        }
    }

    /// after exec: plant a breakpoint before every listed instruction of the program image
    fn plant_breakpoints(&mut self) -> Result<(), String> {
        if self.l.breakpoints.is_empty() {
            return Ok(());
        }
        let maps = std::fs::read_to_string(format!("/proc/{}/maps", self.pid)).map_err(|e| format!("read maps: {}", e))?;
        let exe = std::fs::canonicalize(&self.l.exe).map(|p| p.to_string_lossy().to_string()).unwrap_or(self.l.exe.clone());
        let mut base = None;
        for line in maps.lines() {
            if line.ends_with(&exe) {
                let f: Vec<&str> = line.split_whitespace().collect();
                if f.len() >= 3 && f[2] == "00000000" {
                    base = u64::from_str_radix(f[0].split('-').next().unwrap_or("0"), 16).ok();
                    break;
                }
            }
        }
        let base = base.ok_or_else(|| format!("load base of {} not found", exe))?;
        self.base = base;
        for off in &self.l.breakpoints {
            let addr = base + off;
            let b = self.read_bytes(addr, 1);
            if b.len() != 1 {
                bail!("cannot read instruction byte at {:#x}", addr);
            }
            self.write_mem(addr, &[0xcc])?;
            self.bps.insert(addr, b[0]);
        }
        Ok(())
    }

    /// thread i is stopped before an atomic instruction: execute exactly that instruction
    fn step_over_breakpoint(&mut self, i: usize, idx: usize) -> Result<bool, String> {
        let addr = match self.th[i].at_bp.take() {
            Some(a) => a,
            None => return Ok(true),
        };
        let tid = self.th[i].tid;
        let orig = *self.bps.get(&addr).ok_or("unknown breakpoint")?;
        self.write_mem(addr, &[orig])?;
        if ptrace(libc::PTRACE_SINGLESTEP, tid, 0, 0) != 0 {
            bail!("PTRACE_SINGLESTEP failed: {}", std::io::Error::last_os_error());
        }
        let status = self.wait_tid(tid)?;
        self.write_mem(addr, &[0xcc])?;
        self.events.push(Ev { idx, th: i, name: "ATOMIC".into(), path: Some(format!("{:#x}", addr - self.base)), path2: None, rel: None, rel2: None, fd: -1, fd2: -1, ino: 0, ino2: 0, a: [0; 6], ret: 0, inj: 0 });
        if libc::WIFEXITED(status) || libc::WIFSIGNALED(status) {
            self.thread_died(i, status)?;
            return Ok(false);
        }
        Ok(true)
    }

    /// is thread at a syscall-entry stop (1) or exit stop (2)?
    fn syscall_op(&self, tid: Pid) -> u8 {
        let mut buf = [0u8; 96];
        let r = ptrace(PTRACE_GET_SYSCALL_INFO, tid, buf.len(), buf.as_mut_ptr() as usize);
        if r <= 0 {
            return 0;
        }
        buf[0]
    }

    fn add_thread(&mut self, tid: Pid, path: Vec<u32>, ctid: u64) -> usize {
        let lid = self.th.len();
        let path_s = path_str(&path);
        self.th.push(Th { tid, path, path_s, nspawned: 0, st: St::Ready, at_entry: false, sysno: -1, args: [0; 6], ctid, yielded: false, skip_ret: None, reaped: false, at_bp: None, wait_deadline: None, yields: 0 });
        lid
    }

    fn handle_event(&mut self, i: usize, event: i32) -> Result<(), String> {
        let tid = self.th[i].tid;
        match event {
            libc::PTRACE_EVENT_CLONE => {
                let mut newtid: libc::c_ulong = 0;
                ptrace(libc::PTRACE_GETEVENTMSG, tid, 0, &mut newtid as *mut _ as usize);
                let newtid = newtid as Pid;
                let st = self.wait_tid(newtid)?;
                if !libc::WIFSTOPPED(st) {
                    bail!("new thread {} not stopped: {:#x}", newtid, st);
                }
                let ctid = self.pending_ctid.remove(&i).unwrap_or(0);
                self.th[i].nspawned += 1;
                let mut path = self.th[i].path.clone();
                path.push(self.th[i].nspawned);
                let j = self.add_thread(newtid, path, ctid);
                let idx = self.decisions.len().saturating_sub(1);
                self.events.push(Ev { idx, th: i, name: "SPAWN".into(), path: Some(self.th[j].path_s.clone()), path2: None, rel: None, rel2: None, fd: -1, fd2: -1, ino: 0, ino2: 0, a: [0; 6], ret: j as i64, inj: 0 });
            }
            libc::PTRACE_EVENT_EXEC => {
                self.mem = std::fs::OpenOptions::new().read(true).write(true).open(format!("/proc/{}/mem", self.pid)).map_err(|e| format!("reopen mem: {}", e))?;
                self.execd = true;
                self.plant_breakpoints()?;
            }
            libc::PTRACE_EVENT_FORK | libc::PTRACE_EVENT_VFORK => bail!("tracee forked a process: unsupported"),
            _ => {}
        }
        Ok(())
    }

    /// after resuming a thread that is inside a syscall: wait for its exit stop. false if thread/process died.
    fn to_exit_stop(&mut self, i: usize) -> Result<bool, String> {
        let mut sig = 0;
        loop {
            match self.next_stop(i, sig)? {
                Stop::Dead(status) => {
                    self.thread_died(i, status)?;
                    return Ok(false);
                }
                Stop::Syscall => {
                    self.th[i].at_entry = false;
                    return Ok(true);
                }
                Stop::Event(ev) => {
                    self.handle_event(i, ev)?;
                    sig = 0;
                }
                Stop::Signal(s) => {
                    sig = s;
                }
                Stop::Breakpoint(_) => bail!("breakpoint hit while waiting for a system call to return"),
            }
        }
    }

    fn record_fd_open(&mut self, fd: i32, rel: Option<String>, sandbox: bool) {
        let mut st: libc::stat = unsafe { std::mem::zeroed() };
        let p = CString::new(format!("/proc/{}/fd/{}", self.pid, fd)).unwrap();
        let r = unsafe { libc::stat(p.as_ptr(), &mut st) };
        let (ino, is_fifo) = if r == 0 { (st.st_ino, (st.st_mode & libc::S_IFMT) == libc::S_IFIFO) } else { (0, false) };
        if self.fds.insert(fd, FdInfo { rel, sandbox, ino, is_fifo }).is_none() {
            self.open_now += 1;
            if sandbox {
                self.sb_now += 1;
            }
        }
        self.open_peak = self.open_peak.max(self.open_now);
        self.sb_peak = self.sb_peak.max(self.sb_now);
    }
    fn record_fd_close(&mut self, fd: i32) {
        if let Some(f) = self.fds.remove(&fd) {
            self.open_now -= 1;
            if f.sandbox {
                self.sb_now -= 1;
            }
        }
    }

    /// bookkeeping for calls that are not decision points (executed straight through)
    fn invisible_exit(&mut self, i: usize) -> Result<(), String> {
        let tid = self.th[i].tid;
        let n = self.th[i].sysno;
        let a = self.th[i].args;
        match n {
            libc::SYS_openat | libc::SYS_open | libc::SYS_creat | libc::SYS_openat2 | libc::SYS_socket | libc::SYS_eventfd2 | libc::SYS_epoll_create1 | libc::SYS_memfd_create | libc::SYS_timerfd_create | libc::SYS_inotify_init1 | libc::SYS_dup | libc::SYS_dup2 | libc::SYS_dup3 => {
                let ret = getregs(tid)?.rax as i64;
                if ret >= 0 {
                    if matches!(n, libc::SYS_dup | libc::SYS_dup2 | libc::SYS_dup3) {
                        let src = self.fds.get(&(a[0] as i32)).cloned();
                        if n != libc::SYS_dup {
                            self.record_fd_close(ret as i32);
                        }
                        let (rel, sb) = src.map(|f| (f.rel, f.sandbox)).unwrap_or((None, false));
                        self.record_fd_open(ret as i32, rel, sb);
                    } else {
                        self.record_fd_open(ret as i32, None, false);
                    }
                }
            }
            libc::SYS_fcntl => {
                let cmd = a[1] as i32;
                if cmd == libc::F_DUPFD || cmd == libc::F_DUPFD_CLOEXEC {
                    let ret = getregs(tid)?.rax as i64;
                    if ret >= 0 {
                        let src = self.fds.get(&(a[0] as i32)).cloned();
                        let (rel, sb) = src.map(|f| (f.rel, f.sandbox)).unwrap_or((None, false));
                        self.record_fd_open(ret as i32, rel, sb);
                    }
                }
            }
            libc::SYS_pipe | libc::SYS_pipe2 | libc::SYS_socketpair => {
                let ret = getregs(tid)?.rax as i64;
                if ret == 0 {
                    let addr = if n == libc::SYS_socketpair { a[3] } else { a[0] };
                    let b = self.read_bytes(addr, 8);
                    if b.len() == 8 {
                        let f0 = i32::from_ne_bytes([b[0], b[1], b[2], b[3]]);
                        let f1 = i32::from_ne_bytes([b[4], b[5], b[6], b[7]]);
                        self.record_fd_open(f0, None, false);
                        self.record_fd_open(f1, None, false);
                    }
                }
            }
            libc::SYS_close => {
                let ret = getregs(tid)?.rax as i64;
                if ret == 0 {
                    self.record_fd_close(a[0] as i32);
                }
            }
            libc::SYS_getrandom => {
                // pin the result: hash seeds must be identical across executions
                let ret = getregs(tid)?.rax as i64;
                if ret > 0 {
                    let data = vec![0x5au8; ret as usize];
                    self.write_mem(a[0], &data)?;
                }
            }
            libc::SYS_fork | libc::SYS_vfork | libc::SYS_execve | libc::SYS_execveat => {
                if self.execd && (n == libc::SYS_fork || n == libc::SYS_vfork) {
                    bail!("tracee forks: unsupported");
                }
            }
            _ => {}
        }
        Ok(())
    }

    fn fault_for(&mut self, i: usize, proto: &Proto) -> Option<(usize, Action)> {
        let mut found = None;
        let is_data = matches!(proto.name.as_str(), "read" | "write" | "pread64" | "pwrite64" | "copy_file_range" | "sendfile");
        for (k, f) in self.spec.faults.iter().enumerate() {
            let name_ok = f.call == proto.name || (f.call == "DATA" && is_data);
            if !name_ok {
                continue;
            }
            if let Some(t) = &f.thread {
                if *t != self.th[i].path_s {
                    continue;
                }
            }
            if let Some(pc) = &f.path_contains {
                let a = proto.rel.as_deref().unwrap_or("");
                let b = proto.rel2.as_deref().unwrap_or("");
                if !a.contains(pc.as_str()) && !b.contains(pc.as_str()) {
                    continue;
                }
            }
            self.fault_counts[k] += 1;
            let fire = match f.nth {
                None => true,
                Some(nth) => self.fault_counts[k] == nth,
            };
            if fire && found.is_none() {
                found = Some((k, f.action.clone()));
            }
        }
        found
    }

    fn emulate_clone(&self, proto: &Proto) -> Result<(), String> {
        let src = format!("/proc/{}/fd/{}", self.pid, proto.fd);
        let dst = format!("/proc/{}/fd/{}", self.pid, proto.fd2);
        let data = std::fs::read(&src).map_err(|e| format!("emulate clone read: {}", e))?;
        let out = std::fs::OpenOptions::new().write(true).open(&dst).map_err(|e| format!("emulate clone open: {}", e))?;
        out.set_len(0).map_err(|e| e.to_string())?;
        out.write_all_at(&data, 0).map_err(|e| e.to_string())?;
        out.set_len(data.len() as u64).map_err(|e| e.to_string())?;
        Ok(())
    }

    /// Execute the pending visible call of thread i (really, altered, or emulated) and log it.
    /// Returns false if the thread is no longer runnable (blocked, dead, process gone).
    fn exec_pending(&mut self, i: usize, idx: usize) -> Result<bool, String> {
        let tid = self.th[i].tid;
        let n = self.th[i].sysno;
        let a = self.th[i].args;
        let proto = match self.classify(i) {
            Some(p) => p,
            None => bail!("pending call {} of thread {} is not visible any more", n, i),
        };
        let mut inj = 0u8;
        let mut skip: Option<i64> = self.th[i].skip_ret.take();
        let mut log = true;

        if skip.is_some() {
            // woken from an emulated futex wait: the wait itself was logged when it blocked
            log = false;
        } else if n == libc::SYS_futex {
            log = false;
            let op = (a[1] & 0x7f) as i32;
            match op {
                0 | 9 => {
                    let cur = self.read_u32(a[0])?;
                    if cur == a[2] as u32 {
                        self.blockseq += 1;
                        self.th[i].st = St::Blocked { addr: a[0], timed: a[3] != 0, seq: self.blockseq };
                        self.th[i].wait_deadline = if a[3] != 0 { self.futex_deadline(op, a[1], a[3]) } else { None };
                        self.events.push(Ev { idx, th: i, name: "BLOCK".into(), path: None, path2: None, rel: None, rel2: None, fd: -1, fd2: -1, ino: 0, ino2: 0, a, ret: 0, inj: 0 });
                        return Ok(false);
                    }
                    skip = Some(-(libc::EAGAIN as i64));
                }
                1 | 10 => {
                    let maxw = a[2] as i32 as i64;
                    let addr = a[0];
                    let mut waiters: Vec<(u64, usize)> = vec![];
                    for (j, t) in self.th.iter().enumerate() {
                        if let St::Blocked { addr: ad, seq, .. } = t.st {
                            if ad == addr {
                                waiters.push((seq, j));
                            }
                        }
                    }
                    waiters.sort();
                    // which waiter a wake-up releases when there are more waiters than wake-ups is the kernel's
                    // choice: FIFO by default, any other waiter at the cost of one deviation (a pseudo decision)
                    if maxw == 1 && waiters.len() > 1 {
                        let k = self.decisions.len();
                        let enabled: Vec<usize> = waiters.iter().map(|w| w.1).collect();
                        let default = enabled[0];
                        let mut pick = default;
                        for (di, dp) in &self.spec.devs {
                            if *di == k {
                                match enabled.iter().find(|&&j| self.th[j].path_s == *dp) {
                                    Some(&j) => pick = j,
                                    None => bail!("replay divergence at wake decision {}: thread {} is not waiting", k, dp),
                                }
                            }
                        }
                        self.decisions.push(Dec { enabled, default, chosen: pick, timers: vec![] });
                        let pos = waiters.iter().position(|w| w.1 == pick).unwrap();
                        let w = waiters.remove(pos);
                        waiters.insert(0, w);
                    }
                    let mut woken = 0i64;
                    for (_, j) in waiters {
                        if woken >= maxw {
                            break;
                        }
                        self.th[j].st = St::Ready;
                        self.th[j].skip_ret = Some(0);
                        woken += 1;
                        self.events.push(Ev { idx, th: i, name: "WAKE".into(), path: Some(self.th[j].path_s.clone()), path2: None, rel: None, rel2: None, fd: -1, fd2: -1, ino: 0, ino2: 0, a: [0; 6], ret: j as i64, inj: 0 });
                    }
                    skip = Some(woken);
                }
                _ => bail!("unsupported futex op {} (raw {:#x})", op, a[1]),
            }
        } else if n == libc::SYS_sched_yield || n == libc::SYS_nanosleep || n == libc::SYS_clock_nanosleep {
            skip = Some(0);
            log = false;
        } else if proto.marker {
            skip = Some(-(libc::ENOENT as i64));
        } else if n == libc::SYS_fsync || n == libc::SYS_fdatasync || n == libc::SYS_sync_file_range {
            // durability has no effect the checks can observe; the call is recorded, not executed
            skip = Some(0);
        }

        // environment answers
        if skip.is_none() || proto.marker || n == libc::SYS_fsync || n == libc::SYS_fdatasync {
            if let Some((k, act)) = self.fault_for(i, &proto) {
                match act {
                    Action::Errno(e) => {
                        skip = Some(-(e as i64));
                        inj = 1;
                        self.fault_hits[k] += 1;
                    }
                    Action::EmulateOk => {
                        if proto.name == "ioctl:FICLONE" {
                            self.emulate_clone(&proto)?;
                        }
                        skip = Some(0);
                        inj = 3;
                        self.fault_hits[k] += 1;
                    }
                    Action::Hold => {
                        if self.fault_hits[k] == 0 {
                            self.fault_hits[k] = 1;
                            self.th[i].st = St::Held;
                            self.events.push(Ev { idx, th: i, name: "HOLD".into(), path: proto.rel2.clone().or(proto.rel.clone()), path2: None, rel: None, rel2: None, fd: -1, fd2: -1, ino: 0, ino2: 0, a, ret: 0, inj: 0 });
                            return Ok(false);
                        }
                    }
                    Action::Clamp(c) => {
                        let mut regs = getregs(tid)?;
                        let cur = match n {
                            libc::SYS_copy_file_range => regs.r8,
                            libc::SYS_sendfile => regs.r10,
                            _ => regs.rdx,
                        };
                        if cur > c && c > 0 {
                            match n {
                                libc::SYS_copy_file_range => regs.r8 = c,
                                libc::SYS_sendfile => regs.r10 = c,
                                _ => regs.rdx = c,
                            }
                            setregs(tid, &regs)?;
                            inj = 2;
                            self.fault_hits[k] += 1;
                        }
                    }
                }
            }
        }

        // a blocking open of a FIFO would hang the process for real: decide it structurally
        if skip.is_none() && matches!(n, libc::SYS_openat | libc::SYS_open) {
            if let Some(pb) = &proto.path {
                let flags = if n == libc::SYS_openat { a[2] } else { a[1] } as i32;
                let dirfd = if n == libc::SYS_openat { a[0] as i32 } else { libc::AT_FDCWD };
                if flags & libc::O_NONBLOCK == 0 && flags & libc::O_PATH == 0 && (flags & libc::O_ACCMODE) != libc::O_RDWR {
                    let full: Vec<u8> = if pb.first() == Some(&b'/') || dirfd != libc::AT_FDCWD {
                        pb.clone()
                    } else {
                        let mut v = self.l.cwd.as_bytes().to_vec();
                        v.push(b'/');
                        v.extend_from_slice(pb);
                        v
                    };
                    if pb.first() == Some(&b'/') || dirfd == libc::AT_FDCWD {
                        if let Ok(c) = CString::new(full) {
                            let mut st: libc::stat = unsafe { std::mem::zeroed() };
                            let follow = flags & libc::O_NOFOLLOW == 0;
                            let r = unsafe { if follow { libc::stat(c.as_ptr(), &mut st) } else { libc::lstat(c.as_ptr(), &mut st) } };
                            if r == 0 && (st.st_mode & libc::S_IFMT) == libc::S_IFIFO {
                                self.kernel_blocked = Some(format!("open of FIFO {} without O_NONBLOCK", crate::util::esc(pb)));
                                return Ok(false);
                            }
                        }
                    }
                }
            }
        }
        if skip.is_none() && matches!(n, libc::SYS_read | libc::SYS_readv) {
            if self.fds.get(&(a[0] as i32)).map(|f| f.is_fifo).unwrap_or(false) {
                self.kernel_blocked = Some("read from a FIFO".to_string());
                return Ok(false);
            }
        }

        if n == libc::SYS_clone3 {
            let ctid = self.read_u64(a[0] + 16)?;
            self.pending_ctid.insert(i, ctid);
        } else if n == libc::SYS_clone {
            let flags = a[0];
            if flags & (libc::CLONE_THREAD as u64) == 0 {
                bail!("tracee clone() without CLONE_THREAD: unsupported");
            }
            let ctid = if flags & (libc::CLONE_CHILD_CLEARTID as u64) != 0 { a[3] } else { 0 };
            self.pending_ctid.insert(i, ctid);
        }

        if n == libc::SYS_exit_group && skip.is_none() {
            self.events.push(self.mk_ev(idx, i, &proto, a, a[0] as i32 as i64, inj));
            ptrace(libc::PTRACE_CONT, tid, 0, 0);
            self.exit_status = None;
            self.reap_all();
            if self.exit_status.is_none() {
                self.exit_status = Some(Outcome::Exited(a[0] as i32));
            }
            return Ok(false);
        }

        let ret: i64;
        if let Some(r) = skip {
            let mut regs = getregs(tid)?;
            regs.orig_rax = u64::MAX;
            setregs(tid, &regs)?;
            if !self.to_exit_stop(i)? {
                return Ok(false);
            }
            let mut regs = getregs(tid)?;
            regs.rax = r as u64;
            setregs(tid, &regs)?;
            ret = r;
        } else {
            if !self.to_exit_stop(i)? {
                // exit / exit_group / killed by signal inside the call
                if log {
                    self.events.push(self.mk_ev(idx, i, &proto, a, 0, inj));
                }
                return Ok(false);
            }
            ret = getregs(tid)?.rax as i64;
        }

        // descriptor bookkeeping for visible calls
        match n {
            libc::SYS_openat | libc::SYS_open | libc::SYS_creat | libc::SYS_openat2 => {
                if ret >= 0 && inj == 0 {
                    self.record_fd_open(ret as i32, proto.rel.clone(), true);
                }
            }
            _ => {}
        }
        if log {
            // thread ids differ from run to run: a successful clone is recorded as 1
            let ret = if (n == libc::SYS_clone || n == libc::SYS_clone3) && ret > 0 { 1 } else { ret };
            // log lines contain the sandbox path, whose length differs between workers
            let ret = if proto.name == "write:stdio" && ret > 0 { 1 } else { ret };
            let mut ev = self.mk_ev(idx, i, &proto, a, ret, inj);
            if ret >= 0 && matches!(n, libc::SYS_openat | libc::SYS_open | libc::SYS_creat | libc::SYS_openat2) {
                ev.fd = ret as i32;
                ev.ino = self.fd_ino(ret as i32);
            }
            self.events.push(ev);
        }
        Ok(true)
    }

    fn mk_ev(&self, idx: usize, i: usize, p: &Proto, a: [u64; 6], ret: i64, inj: u8) -> Ev {
        Ev {
            idx,
            th: i,
            name: if p.marker { "MARK".into() } else { p.name.clone() },
            path: p.path.as_ref().map(|b| crate::util::esc(b)),
            path2: p.path2.as_ref().map(|b| crate::util::esc(b)),
            rel: p.rel.clone(),
            rel2: p.rel2.clone(),
            fd: p.fd,
            fd2: p.fd2,
            ino: p.ino,
            ino2: p.ino2,
            a,
            ret,
            inj,
        }
    }

    /// Run thread i: execute its pending call, then let it run to its next visible call entry.
    fn run_thread(&mut self, i: usize, idx: usize) -> Result<(), String> {
        self.steps += 1;
        self.th[i].st = St::Running;
        self.th[i].yielded = false;
        let tid = self.th[i].tid;
        if self.th[i].at_bp.is_some() {
            if !self.step_over_breakpoint(i, idx)? {
                return Ok(());
            }
        } else if self.th[i].at_entry {
            if !self.exec_pending(i, idx)? {
                return Ok(());
            }
        }
        let mut sig = 0;
        loop {
            match self.next_stop(i, sig)? {
                Stop::Dead(status) => {
                    self.thread_died(i, status)?;
                    return Ok(());
                }
                Stop::Breakpoint(addr) => {
                    let mut regs = getregs(tid)?;
                    regs.rip = addr;
                    setregs(tid, &regs)?;
                    self.th[i].at_bp = Some(addr);
                    self.th[i].at_entry = false;
                    self.th[i].st = St::Ready;
                    return Ok(());
                }
                Stop::Syscall => {
                    sig = 0;
                    let op = self.syscall_op(tid);
                    if op == 2 {
                        bail!("thread {} at syscall-exit stop where an entry was expected", i);
                    }
                    let regs = getregs(tid)?;
                    {
                        let t = &mut self.th[i];
                        t.sysno = regs.orig_rax as i64;
                        t.args = [regs.rdi, regs.rsi, regs.rdx, regs.r10, regs.r8, regs.r9];
                        t.at_entry = true;
                    }
                    let vis = self.execd && self.classify(i).is_some();
                    if vis {
                        self.th[i].st = St::Ready;
                        let n = self.th[i].sysno;
                        if n == libc::SYS_sched_yield || n == libc::SYS_nanosleep || n == libc::SYS_clock_nanosleep {
                            self.th[i].yielded = true;
                            self.th[i].yields += 1;
                        } else {
                            self.th[i].yields = 0;
                        }
                        return Ok(());
                    }
                    if !self.to_exit_stop(i)? {
                        return Ok(());
                    }
                    self.invisible_exit(i)?;
                }
                Stop::Event(ev) => {
                    self.handle_event(i, ev)?;
                    sig = 0;
                }
                Stop::Signal(s) => {
                    sig = s;
                }
            }
        }
    }

    fn thread_died(&mut self, i: usize, status: i32) -> Result<(), String> {
        self.th[i].st = St::Dead;
        self.th[i].reaped = true;
        let idx = self.decisions.len().saturating_sub(1);
        self.events.push(Ev { idx, th: i, name: "DEAD".into(), path: None, path2: None, rel: None, rel2: None, fd: -1, fd2: -1, ino: 0, ino2: 0, a: [0; 6], ret: status as i64, inj: 0 });
        if libc::WIFSIGNALED(status) {
            // fatal signal: the whole process is gone
            let sig = libc::WTERMSIG(status);
            if self.exit_status.is_none() {
                self.exit_status = Some(Outcome::Signaled(sig));
            }
            self.reap_all();
            return Ok(());
        }
        if self.th[i].tid == self.pid {
            self.exit_status = Some(Outcome::Exited(libc::WEXITSTATUS(status)));
            self.reap_all();
            return Ok(());
        }
        let ctid = self.th[i].ctid;
        if ctid != 0 {
            for j in 0..self.th.len() {
                if let St::Blocked { addr, .. } = self.th[j].st {
                    if addr == ctid {
                        self.th[j].st = St::Ready;
                        self.th[j].skip_ret = Some(0);
                        self.events.push(Ev { idx, th: i, name: "WAKE".into(), path: Some(self.th[j].path_s.clone()), path2: None, rel: None, rel2: None, fd: -1, fd2: -1, ino: 0, ino2: 0, a: [0; 6], ret: j as i64, inj: 0 });
                    }
                }
            }
        }
        Ok(())
    }

    /// the process is exiting or has been killed: collect every task
    fn reap_all(&mut self) {
        self.stash.clear();
        loop {
            let mut status = 0;
            let r = unsafe { libc::waitpid(-1, &mut status, libc::__WALL | libc::__WNOTHREAD) };
            if r < 0 {
                let e = std::io::Error::last_os_error();
                if e.raw_os_error() == Some(libc::EINTR) {
                    continue;
                }
                break;
            }
            if libc::WIFSTOPPED(status) {
                ptrace(libc::PTRACE_CONT, r, 0, 0);
                continue;
            }
            if let Some(j) = self.th.iter().position(|t| t.tid == r) {
                self.th[j].reaped = true;
                self.th[j].st = St::Dead;
            }
            if r == self.pid {
                let o = if libc::WIFEXITED(status) { Outcome::Exited(libc::WEXITSTATUS(status)) } else { Outcome::Signaled(libc::WTERMSIG(status)) };
                if self.exit_status.is_none() || matches!(self.exit_status, Some(Outcome::Exited(_))) {
                    self.exit_status = Some(o);
                }
            }
        }
        for t in self.th.iter_mut() {
            t.reaped = true;
            t.st = St::Dead;
        }
    }

    fn kill_all(&mut self) {
        unsafe { libc::kill(self.pid, libc::SIGKILL) };
        self.reap_all();
    }

    /// real-time instant at which a futex wait with this timeout argument gives up (FUTEX_WAIT: relative;
    /// FUTEX_WAIT_BITSET: absolute, on CLOCK_MONOTONIC unless FUTEX_CLOCK_REALTIME is set)
    fn futex_deadline(&self, op: i32, opword: u64, ts_addr: u64) -> Option<std::time::Instant> {
        let sec = self.read_u64(ts_addr).ok()? as i64;
        let nsec = self.read_u64(ts_addr + 8).ok()? as i64;
        let now = std::time::Instant::now();
        let rel_ns: i128 = if op == 0 {
            sec as i128 * 1_000_000_000 + nsec as i128
        } else {
            let clk = if opword & 256 != 0 { libc::CLOCK_REALTIME } else { libc::CLOCK_MONOTONIC };
            let mut ts: libc::timespec = unsafe { std::mem::zeroed() };
            unsafe { libc::clock_gettime(clk, &mut ts) };
            (sec as i128 - ts.tv_sec as i128) * 1_000_000_000 + (nsec as i128 - ts.tv_nsec as i128)
        };
        let rel_ns = rel_ns.clamp(0, 10_000_000_000) as u64;
        Some(now + std::time::Duration::from_nanos(rel_ns))
    }

    /// End the timed wait of thread `j` by timeout. The program may look at the clock afterwards (crossbeam does:
    /// it parks again if its deadline has not passed), so the time really has to be up: every thread of the tracee
    /// is stopped at this point, and the supervisor sleeps out what remains of the wait (at most 10 s).
    fn expire_timed_wait(&mut self, j: usize) {
        if let Some(dl) = self.th[j].wait_deadline.take() {
            let now = std::time::Instant::now();
            if dl > now {
                std::thread::sleep(dl - now + std::time::Duration::from_millis(2));
            }
        }
        self.th[j].st = St::Ready;
        self.th[j].skip_ret = Some(-(libc::ETIMEDOUT as i64));
    }

    fn prio_rank(pats: &[String], path: &str) -> usize {
        pats.iter().position(|p| pattern_matches(p, path)).unwrap_or(pats.len())
    }

    fn default_choice(&self, enabled: &[usize]) -> usize {
        let eager = matches!(self.spec.policy, Policy::P2 | Policy::PrioEager(_));
        let nony: Vec<usize> = enabled.iter().cloned().filter(|&j| !self.th[j].yielded || (eager && self.th[j].yields <= 20)).collect();
        let cand: &[usize] = if nony.is_empty() { enabled } else { &nony };
        match &self.spec.policy {
            Policy::P0 | Policy::P1 | Policy::P2 => {
                if let Some(c) = self.cur {
                    if cand.contains(&c) && (!self.th[c].yielded || (eager && self.th[c].yields <= 20)) {
                        return c;
                    }
                }
                let mut v: Vec<usize> = cand.to_vec();
                v.sort_by(|&x, &y| self.th[x].path.cmp(&self.th[y].path));
                if self.spec.policy == Policy::P0 {
                    v[0]
                } else {
                    *v.last().unwrap()
                }
            }
            Policy::RR => {
                let after = self.cur.map(|c| c + 1).unwrap_or(0);
                let mut v: Vec<usize> = cand.to_vec();
                v.sort();
                *v.iter().find(|&&x| x >= after).unwrap_or(&v[0])
            }
            Policy::PrioRR(pats) => {
                let best = cand.iter().map(|&x| Self::prio_rank(pats, &self.th[x].path_s)).min().unwrap();
                let mut v: Vec<usize> = cand.iter().cloned().filter(|&x| Self::prio_rank(pats, &self.th[x].path_s) == best).collect();
                v.sort();
                let after = self.cur.map(|c| c + 1).unwrap_or(0);
                *v.iter().find(|&&x| x >= after).unwrap_or(&v[0])
            }
            Policy::Prio(pats) | Policy::PrioEager(pats) => {
                let mut v: Vec<usize> = cand.to_vec();
                v.sort_by(|&x, &y| (Self::prio_rank(pats, &self.th[x].path_s), &self.th[x].path).cmp(&(Self::prio_rank(pats, &self.th[y].path_s), &self.th[y].path)));
                v[0]
            }
        }
    }

    fn run_loop(&mut self) -> Result<Outcome, String> {
        loop {
            if let Some(o) = self.exit_status.clone() {
                return Ok(o);
            }
            if let Some(c) = self.kernel_blocked.clone() {
                self.kill_all();
                return Ok(Outcome::KernelBlocked(c));
            }
            match SLOTS[self.l.slot % NSLOTS].fired.load(Ordering::SeqCst) {
                0 => {}
                2 => {
                    self.reap_all();
                    return Ok(Outcome::StepLimit);
                }
                _ => {
                    self.reap_all();
                    return Ok(Outcome::KernelBlocked("a real system call did not return within the wall-clock cap".into()));
                }
            }
            let mut enabled: Vec<usize> = (0..self.th.len()).filter(|&j| self.th[j].st == St::Ready).collect();
            if enabled.is_empty() {
                // a held thread is released when nothing else can run
                let held: Vec<usize> = (0..self.th.len()).filter(|&j| self.th[j].st == St::Held).collect();
                for j in held {
                    self.th[j].st = St::Ready;
                    enabled.push(j);
                }
            }
            if enabled.is_empty() {
                // time only advances when nothing else can run
                let mut timed: Vec<(u64, usize)> = vec![];
                for (j, t) in self.th.iter().enumerate() {
                    if let St::Blocked { timed: true, seq, .. } = t.st {
                        timed.push((seq, j));
                    }
                }
                timed.sort();
                if let Some(&(_, j)) = timed.first() {
                    self.expire_timed_wait(j);
                    enabled.push(j);
                }
            }
            if enabled.is_empty() {
                let blocked = self.th.iter().filter(|t| matches!(t.st, St::Blocked { .. })).count();
                if blocked > 0 {
                    self.kill_all();
                    return Ok(Outcome::Deadlock);
                }
                bail!("no thread left but the process did not report an exit status");
            }
            let default = self.default_choice(&enabled);
            // A wait with a timeout may also end because the time is up, whatever else is going on (the thread that
            // would have woken it was slow). By default time stands still while anything can run; letting a timer
            // land first is one deviation, like a pre-emption.
            let mut timers: Vec<usize> = vec![];
            for (j, t) in self.th.iter().enumerate() {
                if matches!(t.st, St::Blocked { timed: true, .. }) && !enabled.contains(&j) {
                    enabled.push(j);
                    timers.push(j);
                    if std::env::var_os("XV_DEBUG_TIMED").is_some() {
                        eprintln!("timed wait of thread {} is a candidate at decision {}", t.path_s, self.decisions.len());
                    }
                }
            }
            let k = self.decisions.len();
            let mut pick = default;
            for (di, dp) in &self.spec.devs {
                if *di == k {
                    match enabled.iter().find(|&&j| self.th[j].path_s == *dp) {
                        Some(&j) => pick = j,
                        None => bail!("replay divergence at decision {}: thread {} not enabled (enabled: {:?})", k, dp, enabled.iter().map(|&j| self.th[j].path_s.clone()).collect::<Vec<_>>()),
                    }
                }
            }
            if self.spec.kill_at == Some(k) {
                self.kill_all();
                return Ok(Outcome::Killed);
            }
            if matches!(self.th[pick].st, St::Blocked { timed: true, .. }) {
                self.expire_timed_wait(pick);
            }
            self.decisions.push(Dec { enabled: enabled.clone(), default, chosen: pick, timers });
            self.cur = Some(pick);
            self.run_thread(pick, k)?;
            if self.steps > self.spec.step_limit {
                self.kill_all();
                return Ok(Outcome::StepLimit);
            }
        }
    }
}

/// Launch `l` under the supervisor and run it to the end according to `spec`.
pub fn execute(l: &Launch, spec: &RunSpec) -> Result<RunResult, String> {
    start_watchdog();
    // everything the child needs is prepared before fork (the harness is multi-threaded)
    let exe = CString::new(l.exe.as_str()).map_err(|e| e.to_string())?;
    let mut argv: Vec<CString> = vec![exe.clone()];
    for a in &l.args {
        argv.push(CString::new(a.clone()).map_err(|e| e.to_string())?);
    }
    let mut argp: Vec<*const libc::c_char> = argv.iter().map(|a| a.as_ptr()).collect();
    argp.push(std::ptr::null());
    let envs: Vec<CString> = ["PATH=/usr/bin:/bin", "HOME=/nonexistent", "LANG=C", "RUST_BACKTRACE=0", "TERM=dumb"].iter().map(|s| CString::new(*s).unwrap()).collect();
    let mut envp: Vec<*const libc::c_char> = envs.iter().map(|a| a.as_ptr()).collect();
    envp.push(std::ptr::null());
    let cwd = CString::new(l.cwd.as_str()).map_err(|e| e.to_string())?;
    let outp = CString::new(l.stdout_path.as_str()).map_err(|e| e.to_string())?;
    let errp = CString::new(l.stderr_path.as_str()).map_err(|e| e.to_string())?;
    let devnull = CString::new("/dev/null").unwrap();
    let slot = &SLOTS[l.slot % NSLOTS];
    slot.fired.store(0, Ordering::SeqCst);
    slot.since_ms.store(0, Ordering::SeqCst);

    let pid = unsafe { libc::fork() };
    if pid < 0 {
        bail!("fork failed: {}", std::io::Error::last_os_error());
    }
    if pid == 0 {
        unsafe {
            if libc::chdir(cwd.as_ptr()) != 0 {
                libc::_exit(126);
            }
            let fd0 = libc::open(devnull.as_ptr(), libc::O_RDONLY);
            let fd1 = libc::open(outp.as_ptr(), libc::O_WRONLY | libc::O_CREAT | libc::O_TRUNC, 0o644);
            let fd2 = libc::open(errp.as_ptr(), libc::O_WRONLY | libc::O_CREAT | libc::O_TRUNC, 0o644);
            libc::dup2(fd0, 0);
            libc::dup2(fd1, 1);
            libc::dup2(fd2, 2);
            // close everything else the harness had open
            if libc::syscall(libc::SYS_close_range, 3u32, u32::MAX, 0u32) != 0 {
                for fd in 3..1024 {
                    libc::close(fd);
                }
            }
            libc::umask(l.umask as libc::mode_t);
            if let Some(n) = l.nofile {
                let rl = libc::rlimit { rlim_cur: n, rlim_max: n };
                libc::setrlimit(libc::RLIMIT_NOFILE, &rl);
            }
            if let Some((u, g)) = l.run_as {
                libc::setgroups(0, std::ptr::null());
                if libc::setgid(g) != 0 || libc::setuid(u) != 0 {
                    libc::_exit(125);
                }
            }
            libc::personality(0x0040000); // ADDR_NO_RANDOMIZE
            libc::ptrace(libc::PTRACE_TRACEME, 0, 0, 0);
            libc::raise(libc::SIGSTOP);
            libc::execve(exe.as_ptr(), argp.as_ptr(), envp.as_ptr());
            libc::_exit(127);
        }
    }
    slot.pid.store(pid, Ordering::SeqCst);
    let mut status = 0;
    loop {
        let r = unsafe { libc::waitpid(pid, &mut status, libc::__WALL) };
        if r == pid {
            break;
        }
        if std::io::Error::last_os_error().raw_os_error() != Some(libc::EINTR) {
            bail!("waitpid for fresh child failed");
        }
    }
    if !libc::WIFSTOPPED(status) {
        bail!("child did not stop: {:#x}", status);
    }
    let opts = libc::PTRACE_O_TRACESYSGOOD | libc::PTRACE_O_TRACECLONE | libc::PTRACE_O_TRACEFORK | libc::PTRACE_O_TRACEVFORK | libc::PTRACE_O_TRACEEXEC | libc::PTRACE_O_EXITKILL;
    if ptrace(libc::PTRACE_SETOPTIONS, pid, 0, opts as usize) != 0 {
        unsafe { libc::kill(pid, libc::SIGKILL) };
        bail!("PTRACE_SETOPTIONS failed: {}", std::io::Error::last_os_error());
    }
    let mem = std::fs::File::open(format!("/proc/{}/mem", pid)).map_err(|e| format!("open mem: {}", e))?;
    let cwd_rel = l.cwd.strip_prefix(&l.root).unwrap_or("").trim_start_matches('/').to_string();
    let mut s = Sup {
        l,
        spec,
        pid,
        th: vec![],
        mem,
        events: vec![],
        decisions: vec![],
        cur: None,
        pending_ctid: HashMap::new(),
        fds: HashMap::new(),
        open_now: 3,
        open_peak: 3,
        sb_now: 0,
        sb_peak: 0,
        steps: 0,
        stops: 0,
        blockseq: 0,
        fault_counts: vec![0; spec.faults.len()],
        fault_hits: vec![0; spec.faults.len()],
        exit_status: None,
        execd: false,
        kernel_blocked: None,
        cwd_rel,
        stash: HashMap::new(),
        bps: HashMap::new(),
        base: 0,
    };
    let _ = &s.cwd_rel;
    s.add_thread(pid, vec![0], 0);
    let res = s.run_loop();
    if res.is_err() {
        s.kill_all();
    }
    slot.pid.store(0, Ordering::SeqCst);
    slot.since_ms.store(0, Ordering::SeqCst);
    // a watchdog kill is reported as such even when the dying tracee was collected first as "killed by signal 9",
    // or when the supervisor tripped over the vanished process
    // a thread that spun on the processor without a system call is the program's doing (a verdict: it is reported
    // like an exhausted step budget and not re-run); a call that did not return may be the machine's
    let fired = slot.fired.load(Ordering::SeqCst);
    let watchdog = fired == 1;
    let outcome = match fired {
        1 => Outcome::KernelBlocked("a real system call did not return within the wall-clock cap".into()),
        2 => Outcome::StepLimit,
        _ => res?,
    };
    let hit_sites: Vec<String> = s.events.iter().filter(|e| e.inj != 0).map(|e| format!("{} {}", e.name, e.rel2.clone().or(e.rel.clone()).unwrap_or_default())).collect();
    Ok(RunResult {
        outcome,
        events: std::mem::take(&mut s.events),
        decisions: std::mem::take(&mut s.decisions),
        threads: s.th.iter().map(|t| t.path_s.clone()).collect(),
        peak_fds: s.open_peak,
        peak_sandbox_fds: s.sb_peak,
        steps: s.steps,
        stops: s.stops,
        fault_hits: s.fault_hits.clone(),
        hit_sites,
        stdout: std::fs::read(&l.stdout_path).unwrap_or_default(),
        stderr: std::fs::read(&l.stderr_path).unwrap_or_default(),
        watchdog,
    })
}
