//! scenario sets shared by the schedule-space properties (C06, C07, C10, C18)

use crate::scen::{Entry, Scenario};

fn src_small() -> Vec<Entry> {
    vec![
        Entry::dir("src"),
        Entry::file("src/a", "0123456789").mode(0o640).mtime(1_300_000_000, 1),
        Entry::file("src/b", "abcdefghijkl").mode(0o755).mtime(1_300_000_001, 999_999_999),
        Entry::dir("src/d"),
        Entry::file("src/d/c", "xyz").mode(0o600).mtime(1_300_000_002, 500),
        Entry::link("src/l", "a"),
    ]
}

fn src_blocks() -> Vec<Entry> {
    vec![
        Entry::dir("src"),
        Entry::file("src/a", "0123456789").mode(0o640).mtime(1_300_000_000, 1),
        Entry::file("src/b", "abcdefghijkl").mode(0o4755).mtime(1_300_000_001, 999_999_999),
        Entry::link("src/l", "b"),
    ]
}

fn populated_dst() -> Vec<Entry> {
    vec![
        Entry::dir("dst"),
        Entry::file("dst/a", "OLD-A-CONTENT-LONGER").mode(0o600).mtime(1_200_000_000, 7),
        Entry::file("dst/a.~1~", "older a").mtime(1_100_000_000, 0),
        Entry::file("dst/b", "old").mtime(1_200_000_001, 8),
        Entry::file("dst/keep", "bystander").mtime(1_200_000_002, 9),
    ]
}

/// S1: parfile, small files + nested dir + link
pub fn s1(workers: u32) -> Scenario {
    let w = workers.to_string();
    Scenario::new(&format!("S1-parfile-w{}", workers), src_small(), &["-r", "--driver", "parfile", "-w", &w, "--block-size", "4", "src", "dst"])
}

/// S2: parblock, 2 files x 3 blocks + link
pub fn s2(workers: u32, bsize: u32) -> Scenario {
    let w = workers.to_string();
    let b = bsize.to_string();
    Scenario::new(&format!("S2-parblock-w{}-b{}", workers, bsize), src_blocks(), &["-r", "--driver", "parblock", "-w", &w, "--block-size", &b, "src", "dst"])
}

/// S3: S2 with --fsync --backup=numbered onto a populated destination (-T so that src maps onto dst itself)
pub fn s3(driver: &str, workers: u32) -> Scenario {
    let w = workers.to_string();
    let mut tree = src_blocks();
    tree.extend(populated_dst());
    Scenario::new(&format!("S3-{}-w{}-fsync-backup", driver, workers), tree, &["-r", "-T", "--fsync", "--backup", "numbered", "--driver", driver, "-w", &w, "--block-size", "4", "src", "dst"])
}

/// S1 for the other driver (driver agreement)
pub fn s1_driver(driver: &str, workers: u32) -> Scenario {
    let w = workers.to_string();
    Scenario::new(&format!("S1-{}-w{}", driver, workers), src_small(), &["-r", "--driver", driver, "-w", &w, "--block-size", "4", "src", "dst"])
}

pub fn with_fsync(mut s: Scenario) -> Scenario {
    s.args.insert(0, "--fsync".into());
    s.name.push_str("-fsync");
    s
}

/// S5: a sparse file (data, hole, data in 4 KiB units: the extent / segment paths) next to a dense two-block file
pub fn s5(driver: &str, workers: u32) -> Scenario {
    let w = workers.to_string();
    let tree = vec![
        Entry::dir("src"),
        Entry::new("src/sp", crate::scen::Kind::File(crate::scen::Content::Layout { unit: 4096, units: vec![true, false, true], tail: 100, seed: 31 })).mode(0o604).mtime(1_300_000_007, 70),
        Entry::gen("src/de", 6000, 32).mode(0o640).mtime(1_300_000_008, 80),
    ];
    Scenario::new(&format!("S5-sparse-{}-w{}", driver, workers), tree, &["-r", "--driver", driver, "-w", &w, "--block-size", "4096", "src", "dst"])
}

/// S6: special files next to directories and files that are created by other threads meanwhile
pub fn s6(driver: &str, workers: u32) -> Scenario {
    let w = workers.to_string();
    let tree = vec![
        Entry::dir("src"),
        Entry::new("src/p1", crate::scen::Kind::Fifo).mode(0o666),
        Entry::dir("src/d1"),
        Entry::file("src/d1/f", "0123456789").mode(0o640).mtime(1_300_000_000, 1),
        Entry::new("src/d1/p2", crate::scen::Kind::Fifo).mode(0o622),
        Entry::dir("src/d2"),
        Entry::dir("src/d2/d3"),
        Entry::file("src/z", "zz").mtime(1_300_000_001, 2),
    ];
    Scenario::new(&format!("S6-specials-{}-w{}", driver, workers), tree, &["-r", "--no-perms", "--driver", driver, "-w", &w, "--block-size", "4", "src", "dst"])
}

/// tiny: parblock, one file of two blocks, two workers (the smallest scenario with a block race)
pub fn tiny(driver: &str) -> Scenario {
    let tree = vec![Entry::dir("src"), Entry::file("src/a", "01234567").mode(0o640).mtime(1_300_000_000, 1)];
    Scenario::new(&format!("tiny-{}", driver), tree, &["-r", "--driver", driver, "-w", "2", "--block-size", "4", "src", "dst"])
}

use crate::sup::RunSpec;

/// set by main when the opt-level-1 binary and its list of atomic instructions are available
pub static ATOMIC_AVAILABLE: std::sync::atomic::AtomicBool = std::sync::atomic::AtomicBool::new(false);
use std::sync::Arc;
pub type Jobs = Vec<(Arc<Scenario>, RunSpec, usize)>;

/// The schedule-search job list shared by C06 / C07 / C10 / C18: (part name, jobs).
/// `tf` transforms every scenario (e.g. adds --fsync).
pub fn schedule_jobs(quick: bool, tf: &dyn Fn(Scenario) -> Scenario) -> Vec<(String, Jobs)> {
    schedule_jobs_level(if quick { 0 } else { 2 }, tf)
}

/// level 0 = quick, 1 = thorough for the properties that re-judge the shared search (C07, C10), 2 = the deepest (C06, C18)
pub fn schedule_jobs_level(level: u8, tf: &dyn Fn(Scenario) -> Scenario) -> Vec<(String, Jobs)> {
    let quick = level == 0;
    let deep = level >= 2;
    let mut parts: Vec<(String, Jobs)> = vec![];
    let mut extra_parts: Vec<(String, Jobs)> = vec![];
    let nocfr = |spec: &mut RunSpec| {
        spec.faults.push(crate::sup::Fault { call: "copy_file_range".into(), thread: None, nth: None, path_contains: None, action: crate::sup::Action::Errno(libc::ENOSYS) });
    };
    {
        let mut j: Jobs = vec![];
        let scens = if quick { vec![s2(2, 4), s1(2)] } else { vec![s2(2, 4), s2(3, 4), s1(2), s3("parblock", 2)] };
        for s in scens {
            let mut s = tf(s);
            s.name.push_str("-nocfr");
            let s = Arc::new(s);
            for mut b in super::base_specs() {
                nocfr(&mut b);
                j.push((s.clone(), b, if deep && s.name.starts_with("S2-parblock-w2") { 2 } else { 1 }));
            }
        }
        extra_parts.push((format!("copy_file_range absent (user-space fallback) d<={}", if deep { 2 } else { 1 }), j));
    }
    let mut add = |name: &str, scens: Vec<Scenario>, d: usize| {
        let mut j = vec![];
        for s in scens {
            let s = Arc::new(tf(s));
            for b in super::base_specs() {
                j.push((s.clone(), b, d));
            }
        }
        parts.push((format!("{} d<={}", name, d), j));
    };
    // (a) -vv turns every log statement into a system call, i.e. a pre-emption point in places where the code
    //     only communicates in memory; (b) with the kernel copy facility absent the user-space fallback runs
    //     (positioned reads/writes on descriptors shared between block jobs)
    let vv = |mut s: Scenario| {
        s.args.insert(0, "-vv".into());
        s.name.push_str("-vv");
        s
    };
    // (c) atomic grain: xcp built at opt-level 1 stops before every atomic read-modify-write instruction of its own
    //     code (Arc counts, the updater's counter, mutexes), so windows without any system call can be pre-empted
    if ATOMIC_AVAILABLE.load(std::sync::atomic::Ordering::Relaxed) {
        let at = |mut s: Scenario| {
            s.prog = crate::scen::Prog::XcpAtomic;
            s.name.push_str("-atomic");
            s
        };
        if quick {
            add("tiny both drivers at atomic grain", vec![at(tiny("parblock")), at(tiny("parfile"))], 1);
        } else {
            add("tiny both drivers at atomic grain", vec![at(tiny("parblock")), at(tiny("parfile"))], 2);
            add("S2 parblock B=4 w2, S1 parfile w2 at atomic grain", vec![at(s2(2, 4)), at(s1(2))], 1);
        }
    }
    if quick {
        add("S2 parblock B=4 w2, -vv (log statements as pre-emption points)", vec![vv(s2(2, 4))], 1);
        add("S1 parfile w2, -vv", vec![vv(s1(2))], 1);
    } else {
        add("S2 parblock B=4 w2, -vv (log statements as pre-emption points)", vec![vv(s2(2, 4))], if deep { 2 } else { 1 });
        add("S2 parblock B=4 w3, S1 parfile w2, S3: -vv", vec![vv(s2(3, 4)), vv(s1(2)), vv(s3("parblock", 2))], 1);
        add("tiny -vv", vec![vv(tiny("parblock"))], 2);
    }
    // (d) the eager-parking base policy P2: consumers go to sleep on an empty queue and are woken item by item
    //     (and a wait with a timeout can be made to expire first): the schedules around a sleeping consumer
    {
        let scens = if quick { vec![s1(1), s1(2), s2(2, 4), s3("parfile", 2)] } else { vec![s1(1), s1(2), s1(3), s2(1, 4), s2(2, 4), s2(3, 4), s3("parfile", 2), s3("parblock", 2), s6("parfile", 2)] };
        let mut j: Jobs = vec![];
        for sc in scens {
            let sc = Arc::new(tf(sc));
            j.push((sc.clone(), RunSpec::base(crate::sup::Policy::P2), if deep { 2 } else { 1 }));
        }
        extra_parts.push((format!("S1 / S2 / S3 under the eager-parking policy P2 d<={}", if deep { 2 } else { 1 }), j));
    }
    if quick {
        add("S1 parfile w{1,2,3}", vec![s1(1), s1(2), s1(3)], 1);
        add("S2 parblock B=4 w{1,2,3}", vec![s2(1, 4), s2(2, 4), s2(3, 4)], 1);
        add("S2' parblock B=16 w2", vec![s2(2, 16)], 1);
        add("S3 fsync+backup onto populated dst, both drivers w2", vec![s3("parblock", 2), s3("parfile", 2)], 1);
        add("S1 under parblock (driver agreement) w2", vec![s1_driver("parblock", 2)], 1);
        add("S4 w8 parblock", vec![s2(8, 4)], 1);
        add("S5 sparse + dense, both drivers w2", vec![s5("parblock", 2), s5("parfile", 2)], 1);
        add("S6 special files among directories and files, both drivers w2", vec![s6("parblock", 2), s6("parfile", 2)], 1);
        add("S4 w64 both drivers", vec![s1(64), s2(64, 4)], 0);
        add("tiny parblock", vec![tiny("parblock")], 2);
    } else {
        add("S1 parfile w2", vec![s1(2)], 2);
        add("S1 parfile w{1,3}", vec![s1(1), s1(3)], if deep { 2 } else { 1 });
        add("S2 parblock B=4 w2", vec![s2(2, 4)], 2);
        add("S2 parblock B=4 w{1,3}", vec![s2(1, 4), s2(3, 4)], if deep { 2 } else { 1 });
        add("S2' parblock B=16 w{1,2}", vec![s2(1, 16), s2(2, 16)], 2);
        add("S3 fsync+backup onto populated dst, parblock w2", vec![s3("parblock", 2)], 2);
        add("S3 fsync+backup onto populated dst, parfile w2", vec![s3("parfile", 2)], if deep { 2 } else { 1 });
        add("S1 under parblock (driver agreement) w2", vec![s1_driver("parblock", 2)], if deep { 2 } else { 1 });
        add("S4 w{8,64} both drivers", vec![s1(8), s2(8, 4), s1(64), s2(64, 4)], 1);
        add("S5 sparse + dense, both drivers w2", vec![s5("parblock", 2), s5("parfile", 2)], if deep { 2 } else { 1 });
        add("S6 special files among directories and files, both drivers w{2,3}", vec![s6("parblock", 2), s6("parfile", 2), s6("parfile", 3)], if deep { 2 } else { 1 });
        add("tiny both drivers", vec![tiny("parblock"), tiny("parfile")], 2);
    }
    drop(add);
    if deep {
        // three deviations on the smallest scenario with a block race, around the P0 base schedule only (about 2 million executions)
        let s = Arc::new(tf(tiny("parblock")));
        parts.push(("tiny parblock d<=3 around P0".to_string(), vec![(s, RunSpec::base(crate::sup::Policy::P0), 3usize)]));
    }
    parts.extend(extra_parts);
    parts
}
