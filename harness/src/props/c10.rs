//! C10 — permissions, timestamps, xattrs and ownership are preserved as requested

use super::*;
use crate::explore::{explore, Judge};
use crate::scen::Entry;

pub fn judge(w: &Worker, scen: &Scenario, ex: &Exec) -> Judgement {
    let exp = model::expect(scen);
    let v = judge_exit0_tree(w, scen, ex, &exp, Level::Meta);
    simple_judge(v, ex, exit0(ex))
}

fn one(name: &str, src: Entry, prior: Option<Entry>, d: &str, flags: &[&str]) -> Scenario {
    let mut tree = vec![src];
    if let Some(p) = prior {
        tree.push(p);
    }
    let mut args: Vec<&str> = vec!["--driver", d, "-w", "2", "--block-size", "4"];
    args.extend_from_slice(flags);
    args.extend_from_slice(&["f", "g"]);
    Scenario::new(name, tree, &args)
}

pub fn mode_scenarios(quick: bool) -> Vec<Scenario> {
    let mut v = vec![];
    for d in drivers() {
        for own in [false, true] {
            for m in 0..0o10000u32 {
                if quick && !own && m % 8 != 5 && m & 0o7000 == 0 {
                    // quick: without --ownership the plain rwx combinations are thinned out (all special-bit modes kept)
                    continue;
                }
                let src = Entry::file("f", "0123456789").mode(m).mtime(1_300_000_000, 123_456_789).owner(1000, 1000);
                let flags: Vec<&str> = if own { vec!["--ownership"] } else { vec![] };
                v.push(one(&format!("mode-{:04o}-{}-{}", m, d, if own { "own" } else { "noown" }), src, None, d, &flags));
            }
        }
    }
    v
}

pub fn other_scenarios() -> Vec<Scenario> {
    let mut v = vec![];
    let mtimes: Vec<(i64, u32)> = vec![(0, 0), (0, 1), (978_307_200, 123_456_789), (1_500_000_000, 999_999_999), (4_102_444_800, 5), (-1, 0), (-86_400, 500_000_000), (4_400_000_000, 1), (8_000_000_000, 999_999_999), (-2_000_000_000, 999_999_999)];
    let prior = || Entry::file("g", "previous destination content, longer").mode(0o604).mtime(1_100_000_000, 77).xattr("user.old", "stale").owner(7, 8);
    for d in drivers() {
        for (i, mt) in mtimes.iter().enumerate() {
            for nt in [false, true] {
                for ow in [false, true] {
                    let src = Entry::file("f", "0123456789ab").mode(0o640).mtime(mt.0, mt.1);
                    let flags: Vec<&str> = if nt { vec!["--no-timestamps"] } else { vec![] };
                    v.push(one(&format!("mtime-{}-{}-{}-{}", i, if nt { "nots" } else { "ts" }, if ow { "over" } else { "fresh" }, d), src, if ow { Some(prior()) } else { None }, d, &flags));
                }
            }
        }
        let big = "v".repeat(2000);
        let xsets: Vec<Vec<(&str, &str)>> = vec![vec![], vec![("user.a", "1")], vec![("user.a", "1"), ("user.b", "")], vec![("user.big", &big)], vec![("user.bin", "\\x00\\x01\\xff")]];
        for (i, xs) in xsets.iter().enumerate() {
            for ow in [false, true] {
                let mut src = Entry::file("f", "0123456789ab").mode(0o644);
                for (k, val) in xs {
                    src = src.xattr(k, val);
                }
                v.push(one(&format!("xattr-{}-{}-{}", i, if ow { "over" } else { "fresh" }, d), src, if ow { Some(prior()) } else { None }, d, &[]));
            }
        }
        for (u, g) in [(0u32, 0u32), (0, 1000), (0, 4242), (1000, 0), (1000, 1000), (1000, 4242), (4242, 0), (4242, 1000), (4242, 4242), (65534, 65534)] {
            for m in [0o644u32, 0o4755, 0o2755, 0o6755, 0o1777] {
                for ow in [false, true] {
                    let src = Entry::file("f", "0123456789ab").mode(m).owner(u, g);
                    v.push(one(&format!("owner-{}-{}-{:o}-{}-{}", u, g, m, if ow { "over" } else { "fresh" }, d), src, if ow { Some(prior()) } else { None }, d, &["--ownership"]));
                }
            }
        }
        // full product of the three flags on a reduced domain
        for np in [false, true] {
            for nt in [false, true] {
                for own in [false, true] {
                    for ow in [false, true] {
                        for m in [0o600u32, 0o6751, 0o444] {
                            for um in [0o022u32, 0o077] {
                                let src = Entry::file("f", "0123456789ab").mode(m).mtime(1_234_567_890, 987_654_321).owner(1000, 100).xattr("user.k", "v");
                                let mut flags: Vec<&str> = vec![];
                                if np {
                                    flags.push("--no-perms");
                                }
                                if nt {
                                    flags.push("--no-timestamps");
                                }
                                if own {
                                    flags.push("--ownership");
                                }
                                let mut s = one(&format!("flags-{}{}{}-{}-{:o}-u{:o}-{}", np as u8, nt as u8, own as u8, if ow { "over" } else { "fresh" }, m, um, d), src, if ow { Some(prior()) } else { None }, d, &flags);
                                s.umask = um;
                                v.push(s);
                            }
                        }
                    }
                }
            }
        }
    }
    v
}

pub fn flag_pairs() -> Vec<Scenario> {
    let flags: Vec<Vec<&str>> = vec![
        vec!["-n"],
        vec!["--backup", "numbered"],
        vec!["--backup", "auto"],
        vec!["--no-perms"],
        vec!["--no-timestamps"],
        vec!["--ownership"],
        vec!["--fsync"],
        vec!["--reflink", "never"],
        vec!["--no-progress"],
        vec!["--block-size", "3"],
        vec!["--gitignore"],
        vec!["-L"],
        vec!["-f"],
        vec!["-w", "1"],
        vec!["-vv"],
    ];
    let mut v = vec![];
    for d in drivers() {
        for i in 0..flags.len() {
            for k in i..flags.len() {
                for populated in [false, true] {
                    let mut tree = vec![
                        Entry::dir("src"),
                        Entry::file("src/a", "0123456789").mode(0o4750).mtime(1_300_000_000, 111).owner(1000, 4242).xattr("user.k", "v"),
                        Entry::file("src/e", "").mode(0o604).mtime(1_300_000_001, 222).owner(0, 1000),
                        Entry::dir("src/d"),
                        Entry::file("src/d/b", "abcdefg").mode(0o640).mtime(-5, 333).owner(4242, 0),
                    ];
                    if populated {
                        tree.push(Entry::dir("dst"));
                        tree.push(Entry::file("dst/keep", "bystander").mtime(1_200_000_000, 1));
                        tree.push(Entry::file("dst/a.~3~", "older a").mtime(1_100_000_000, 2));
                        let nc = flags[i] == vec!["-n"] || flags[k] == vec!["-n"];
                        if !nc {
                            tree.push(Entry::file("dst/a", "previous a, longer").mode(0o600).mtime(1_200_000_001, 3).owner(7, 8));
                        }
                    }
                    let mut args: Vec<&str> = vec!["-r", "--driver", d];
                    args.extend(flags[i].iter());
                    if k != i {
                        args.extend(flags[k].iter());
                    }
                    if populated {
                        args.push("-T");
                    }
                    args.extend_from_slice(&["src", "dst"]);
                    let name = format!("flags-[{}]+[{}]-{}-{}", flags[i].join(" "), if k != i { flags[k].join(" ") } else { String::new() }, if populated { "populated" } else { "fresh" }, d);
                    v.push(Scenario::new(&name, tree, &args));
                }
            }
        }
    }
    v
}

/// Failures of extended-attribute and ownership calls are tolerated for the file they hit (C04 says so), and
/// for that file only: every other file of the run still has to carry its attributes.
pub fn judge_tolerated_faults(w: &Worker, scen: &Scenario, ex: &Exec) -> Judgement {
    let mut j = judge(w, scen, ex);
    let mut hit: Vec<(String, bool)> = vec![]; // (file name, was it an ownership call)
    for e in ex.res.events.iter().filter(|e| e.inj != 0) {
        for p in [&e.rel, &e.rel2].into_iter().flatten() {
            let base = p.rsplit('/').next().unwrap_or(p).to_string();
            hit.push((base, e.name.contains("chown")));
        }
    }
    j.violations.retain(|m| {
        !hit.iter().any(|(base, own)| {
            let about_file = m.contains(&format!("dst/{}:", base)) || m.contains(&format!("dst/{} ", base)) || m.ends_with(&format!("dst/{}", base));
            about_file && ((m.contains("xattr ") && !*own) || (m.contains("owner of") && *own))
        })
    });
    j
}

fn tolerated_fault_jobs(ctx: &Ctx) -> (Vec<(std::sync::Arc<Scenario>, RunSpec, usize)>, usize, Vec<String>) {
    use crate::sup::{Action, Fault};
    let w = Worker::new(143, &ctx.pool.bins);
    let mut jobs = vec![];
    let mut errs = vec![];
    let mut nsites = 0;
    for d in drivers() {
        for wn in ["1", "2"] {
            for own in [false, true] {
                for populated in [false, true] {
                    let mut tree = vec![
                        Entry::file("a", "0123456789").mode(0o4750).mtime(1_300_000_000, 111).owner(1000, 4242).xattr("user.k", "va").xattr("user.second", "2a"),
                        Entry::file("b", "").mode(0o604).mtime(1_300_000_001, 222).owner(0, 1000).xattr("user.k", "vb"),
                        Entry::file("c", "abcdefg").mode(0o2640).mtime(-5, 333).owner(4242, 0).xattr("user.k", "vc").xattr("user.third", "3c"),
                        Entry::dir("dst"),
                    ];
                    if populated {
                        tree.push(Entry::file("dst/b", "previous b").mode(0o600).mtime(1_200_000_001, 3).owner(7, 8).xattr("user.k", "stale"));
                    }
                    let mut args: Vec<&str> = vec!["--driver", d, "-w", wn, "--block-size", "4"];
                    if own {
                        args.push("--ownership");
                    }
                    args.extend_from_slice(&["a", "b", "c", "dst"]);
                    let s = Scenario::new(&format!("tolerated-faults-{}-w{}-{}-{}", d, wn, if own { "own" } else { "noown" }, if populated { "populated" } else { "fresh" }), tree, &args);
                    let sa = std::sync::Arc::new(s.clone());
                    for base in base_specs() {
                        let rec = match w.run(&s, &base) {
                            Ok(r) => r,
                            Err(e) => {
                                errs.push(format!("recording run of {}: {}", s.name, e));
                                continue;
                            }
                        };
                        jobs.push((sa.clone(), base.clone(), 0));
                        let mut cnt: std::collections::BTreeMap<(usize, String), usize> = std::collections::BTreeMap::new();
                        for e in &rec.events {
                            if matches!(e.name.as_str(), "SPAWN" | "DEAD" | "BLOCK" | "WAKE" | "MARK" | "exit_group" | "exit" | "clone" | "clone3") {
                                continue;
                            }
                            let c = cnt.entry((e.th, e.name.clone())).or_insert(0);
                            *c += 1;
                            if !(e.name.contains("xattr") || e.name.contains("chown")) {
                                continue;
                            }
                            nsites += 1;
                            for en in [libc::EPERM, libc::ENOTSUP, libc::ENOSPC, libc::ERANGE] {
                                let mut sp = base.clone();
                                sp.faults.push(Fault { call: e.name.clone(), thread: Some(rec.threads[e.th].clone()), nth: Some(*c), path_contains: None, action: Action::Errno(en) });
                                jobs.push((sa.clone(), sp, 0));
                            }
                        }
                    }
                }
            }
        }
    }
    (jobs, nsites, errs)
}

pub fn run(ctx: &Ctx) -> Report {
    let mut rep = Report::new(
        "model_checking",
        "all 4096 permission modes x both drivers x {-, --ownership}; mtimes {epoch, 1 ns, 2001.123456789, .999999999, 2100, before 1970} x {-, --no-timestamps} x fresh/overwritten; xattr sets; uid:gid pairs x set-id/sticky modes with --ownership; the full product of --no-perms/--no-timestamps/--ownership on a reduced domain x umasks; multi-block files under the parblock schedule search (the last block may finish on any worker); oracle: exit 0 => mode (07777), mtime to the nanosecond, user xattrs, owner equal to the source's, or default/previous mode and a current mtime when the respective transfer is disabled; non-trivial = exited 0, per distinct (scenario, trace)",
    );
    let j: Judge = &judge;
    let ms = mode_scenarios(ctx.quick());
    let n = ms.len();
    let st = scen_batch(ctx, ms, &[Policy::P0], j);
    rep.part("all modes x drivers x ownership", st, serde_json::json!({"scenarios": n}));
    let os = other_scenarios();
    let n = os.len();
    let st = scen_batch(ctx, os, &[Policy::P0, Policy::P1], j);
    rep.part("mtimes, xattrs, owners, flag product", st, serde_json::json!({"scenarios": n}));
    // an unprivileged user: what root's CAP_DAC_OVERRIDE / CAP_FOWNER would paper over
    let mut sc = vec![];
    for d in drivers() {
        for m in [0o644u32, 0o600, 0o444, 0o555, 0o4555, 0o400, 0o000] {
            for ow in [false, true] {
                for big in [false, true] {
                    if m == 0 && !ow {
                        // a source without read permission cannot be copied by its unprivileged owner at all
                    }
                    let src = if big { Entry::gen("f", 11, 5) } else { Entry::file("f", "012") };
                    let src = src.mode(if m == 0 { 0o400 } else { m }).mtime(1_234_567_890, 123_456_789).xattr("user.a", "1").xattr("user.b", "two");
                    let mut s = one(&format!("unpriv-{:04o}-{}-{}-{}", m, if ow { "over" } else { "fresh" }, if big { "multi" } else { "single" }, d), src, if ow { Some(Entry::file("g", "previous content of the destination").mode(0o600).mtime(1_100_000_000, 77).xattr("user.old", "stale")) } else { None }, d, &[]);
                    s.run_as = Some((65534, 65534));
                    sc.push(s);
                }
            }
        }
    }
    let st = scen_batch(ctx, sc, &[Policy::P0], j);
    rep.part("copies made by an unprivileged user (uid 65534): read-only and set-id sources with xattrs", st, serde_json::json!({}));
    // every pair of options on a small tree, fresh and populated destination: an option must not switch off
    // what another one asks for
    let st = scen_batch(ctx, flag_pairs(), &[Policy::P0], j);
    rep.part("all pairs of options x fresh/populated destination x drivers", st, serde_json::json!({}));
    // a refused attribute or ownership call is tolerated for the file it hits, and only for that file
    {
        let (jobs, nsites, errs) = tolerated_fault_jobs(ctx);
        let jt: Judge = &judge_tolerated_faults;
        let mut st = explore(&ctx.pool, jobs, jt);
        st.engine_errors.extend(errs);
        rep.part("one failing xattr / chown call (EPERM, ENOTSUP, ENOSPC, ERANGE) at each such call of a three-file copy: the other files keep everything", st, serde_json::json!({"sites": nsites}));
    }
    // schedule search with the transfers switched off: "default mode, current time" must hold under every schedule
    // too (anything process-wide that a thread changes for a moment, the umask for one, shows up here only)
    {
        let mut jobs = vec![];
        for d in drivers() {
            for flags in [vec!["--no-perms"], vec!["--no-perms", "--no-timestamps"]] {
                let mut s = sets::s1_driver(d, 2);
                for f in flags.iter().rev() {
                    s.args.insert(0, f.to_string());
                }
                s.name = format!("{}-[{}]", s.name, flags.join(" "));
                let s = std::sync::Arc::new(s);
                for b in base_specs() {
                    jobs.push((s.clone(), b, if ctx.quick() { 1usize } else { 2 }));
                }
            }
        }
        let st = explore(&ctx.pool, jobs, j);
        rep.part("schedule search on a small tree with --no-perms (and --no-timestamps)", st, serde_json::json!({"d": if ctx.quick() { 1 } else { 2 }}));
    }
    // schedule search on multi-block files: metadata must survive any completion order of the blocks
    let cj: Judge = &c06::judge;
    for (name, jobs) in sets::schedule_jobs_level(if ctx.quick() { 0 } else { 1 }, &|s| s).into_iter().filter(|(n, _)| n.starts_with("S2") || n.starts_with("S3") || (n.starts_with("tiny") && !(ctx.quick() && n.starts_with("tiny parblock")))) {
        // (quick: the d <= 2 search on `tiny parblock` is run by C06 with this very judge)
        let st = explore(&ctx.pool, jobs, cj);
        rep.part(&format!("schedule search: {}", name), st, serde_json::json!({"policies": ["P0", "P1"]}));
    }
    rep.assumptions = vec!["run as root (ownership can be set); ext4 sandbox with user xattrs".into()];
    rep
}
