//! C11 — holes stay holes: sparse files are copied without materialising them

use super::*;
use crate::explore::Judge;
use crate::scen::{seek_map, Content, Entry, Kind};
use crate::util::join;

const MIB: u64 = 1 << 20;

pub fn judge(w: &Worker, scen: &Scenario, ex: &Exec) -> Judgement {
    let exp = model::expect(scen);
    let mut v = judge_exit0_tree(w, scen, ex, &exp, Level::Content);
    if !exit0(ex) && !ex.res.outcome.is_hang() {
        v.push(format!("valid sparse copy ends with {}", ex.res.outcome.short()));
    }
    if exit0(ex) {
        let root = w.root(scen.fs);
        for (src, dst) in exp.mapped.iter() {
            let (sn, dn) = match (ex.snap.get(src), ex.snap.get(dst)) {
                (Some(s), Some(d)) if s.kind == 'f' && d.kind == 'f' => (s, d),
                _ => continue,
            };
            let content = match scen.tree.iter().find(|e| &e.path == src).and_then(|e| e.content()) {
                Some(c) => c.clone(),
                None => continue,
            };
            let nseg = content.segments().len() as u64;
            let slack = 65536 * (nseg + 1);
            if dn.blocks * 512 > sn.blocks * 512 + slack {
                v.push(format!("{} allocates {} bytes, its source {} allocates {} (slack {}): holes were materialised", dst, dn.blocks * 512, src, sn.blocks * 512, slack));
            }
            // the destination's data map must lie inside the source's, rounded out to file-system blocks
            let smap: Vec<(u64, u64)> = seek_map(&join(&root, &crate::util::unesc(src))).into_iter().map(|(a, b)| (a / 4096 * 4096, (b + 4095) / 4096 * 4096)).collect();
            for (a, b) in seek_map(&join(&root, &crate::util::unesc(dst))) {
                let mut pos = a;
                while pos < b {
                    match smap.iter().find(|(x, y)| *x <= pos && pos < *y) {
                        Some((_, y)) => pos = *y,
                        None => {
                            v.push(format!("{} has data at offset {} where {} has a hole", dst, pos, src));
                            break;
                        }
                    }
                }
            }
        }
    }
    v.truncate(6);
    simple_judge(v, ex, exit0(ex))
}

/// like `judge`, but the source whose extent query was answered "unsupported" may legitimately be materialised
pub fn judge_later_sources(w: &Worker, scen: &Scenario, ex: &Exec) -> Judgement {
    let mut j = judge(w, scen, ex);
    j.violations.retain(|m| !m.starts_with("dst/a "));
    j
}

fn bsizes() -> Vec<(&'static str, Vec<&'static str>)> {
    vec![("256K", vec!["--block-size", "256KB"]), ("1M", vec!["--block-size", "1MB"]), ("1.5M", vec!["--block-size", "1572864"]), ("4M", vec!["--block-size", "4MB"]), ("MAX", vec!["--no-progress"])]
}

fn mk(name: &str, c: Content, d: &str, w: &str, bflag: &[&str], prior_alloc: bool) -> Scenario {
    let len = c.len();
    let mut tree = vec![Entry::new("f", Kind::File(c))];
    if prior_alloc {
        tree.push(Entry::new("g", Kind::File(Content::Gen { len: len.max(4096), seed: 99 })));
    }
    let mut args: Vec<&str> = vec!["--driver", d, "-w", w];
    args.extend_from_slice(bflag);
    args.extend_from_slice(&["f", "g"]);
    Scenario::new(name, tree, &args)
}

pub fn layout_scenarios(maxlen: usize, workers: &[&str]) -> Vec<Scenario> {
    let mut v = vec![];
    for units in c01::all_layouts(maxlen) {
        let name: String = units.iter().map(|&b| if b { 'D' } else { 'H' }).collect();
        for (bn, bflag) in bsizes() {
            for d in drivers() {
                for w in workers {
                    for pa in [false, true] {
                        let c = Content::Layout { unit: MIB, units: units.clone(), tail: 0, seed: 3 };
                        v.push(mk(&format!("sparse-{}-B{}-{}-w{}-{}", name, bn, d, w, if pa { "overalloc" } else { "fresh" }), c, d, w, &bflag, pa));
                    }
                }
            }
        }
    }
    v
}

/// 4 KiB of data every `stride` bytes, `n` times (more than one FIEMAP page when n > 32)
pub fn many_extents(n: usize, stride: u64) -> Content {
    let per = (stride / 4096) as usize;
    let mut units = vec![false; n * per];
    for i in 0..n {
        units[i * per] = true;
    }
    Content::Layout { unit: 4096, units, tail: 0, seed: 11 }
}

pub fn extent_scenarios(counts: &[usize], stride: u64) -> Vec<Scenario> {
    let mut v = vec![];
    for &n in counts {
        for d in drivers() {
            for (bn, bflag) in [("1M", vec!["--block-size", "1MB"]), ("MAX", vec!["--no-progress"])] {
                v.push(mk(&format!("extents-{}-stride{}-B{}-{}", n, stride, bn, d), many_extents(n, stride), d, "4", &bflag, false));
            }
        }
    }
    v
}

/// sparse files whose data islands straddle the 2 GiB and 4 GiB offsets (where a 32-bit or signed 32-bit offset,
/// length or block number wraps), ending in data / ending in a hole. A few KiB on disk.
pub fn far_contents() -> Vec<(&'static str, Content)> {
    const G: u64 = 1 << 30;
    vec![
        ("ends-in-data", Content::Islands { len: 4 * G + MIB + 4097, at: vec![(0, 4096), (2 * G - 4096, 8192), (4 * G - 4096, 8192), (4 * G + MIB, 4097)], seed: 51 }),
        ("ends-in-hole", Content::Islands { len: 5 * G + 123, at: vec![(8192, 100), (2 * G - 1, 2), (4 * G - 1, 2), (4 * G + 3 * MIB + 5, 70000)], seed: 52 }),
    ]
}

pub fn far_scenarios() -> Vec<Scenario> {
    let mut v = vec![];
    for (cn, c) in far_contents() {
        for d in drivers() {
            for (bn, bflag) in [("1M", vec!["--block-size", "1MB"]), ("1G", vec!["--block-size", "1GB"]), ("MAX", vec!["--no-progress"])] {
                for pa in [false, true] {
                    let mut s = mk(&format!("far-{}-B{}-{}-{}", cn, bn, d, if pa { "onto-small-file" } else { "fresh" }), c.clone(), d, "2", &bflag, false);
                    if pa {
                        s.tree.push(Entry::gen("g", 5000, 98));
                    }
                    v.push(s);
                }
            }
        }
    }
    v
}

pub fn run(ctx: &Ctx) -> Report {
    crate::explore::SNAP_BEFORE.store(false, std::sync::atomic::Ordering::Relaxed);
    let mut rep = Report::new(
        "model_checking",
        "every {Data,Hole} string up to a length bound in 1 MiB units x block sizes {256 KiB, 1 MiB, 1.5 MiB, 4 MiB, usize::MAX} x both drivers x workers x destination {fresh, existing and fully allocated}; files of 40+ extents (several FIEMAP pages); the all-hole file; hole-size scaling; executed by the real binary on ext4; oracle: bytes equal, destination st_blocks*512 <= source's + 64 KiB per data segment, destination SEEK_DATA/SEEK_HOLE map contained in the source's (rounded to blocks), allocation independent of hole size; non-trivial = exited 0, per distinct (scenario, trace)",
    );
    let j: Judge = &judge;
    let q = ctx.quick();
    let sc = layout_scenarios(if q { 5 } else { 6 }, if q { &["1", "4"] } else { &["1", "4", "16"] });
    let n = sc.len();
    let st = scen_batch(ctx, sc, &[Policy::P0], j);
    rep.part("data/hole layouts in 1 MiB units", st, serde_json::json!({"scenarios": n, "max_units": if q { 5 } else { 6 }}));
    let sc = extent_scenarios(if q { &[40] } else { &[31, 32, 33, 40, 64, 65, 100] }, MIB);
    let st = scen_batch(ctx, sc, &[Policy::P0], j);
    rep.part("many extents (4 KiB of data every 1 MiB)", st, serde_json::json!({"extent_counts": if q { vec![40] } else { vec![31, 32, 33, 40, 64, 65, 100] }}));
    // hole-size scaling: the same data, holes x1, x8 (, x64): allocation must not change
    let mut sc = vec![];
    for (k, stride) in if q { vec![(1u64, MIB), (8, 8 * MIB)] } else { vec![(1u64, MIB), (8, 8 * MIB), (64, 64 * MIB)] } {
        let _ = k;
        for d in drivers() {
            sc.push(mk(&format!("scaling-stride{}-{}", stride, d), many_extents(5, stride), d, "4", &["--block-size", "1MB"], false));
        }
    }
    let st = scen_batch(ctx, sc, &[Policy::P0], j);
    rep.part("hole-size scaling (5 x 4 KiB of data, holes of 1 / 8 / 64 MiB)", st, serde_json::json!({}));
    let sc = far_scenarios();
    let n = sc.len();
    let st = scen_batch(ctx, sc, &[Policy::P0], j);
    rep.part("data islands straddling the 2 GiB and 4 GiB offsets (files of 4-5 GiB, a few KiB allocated)", st, serde_json::json!({"scenarios": n}));
    // several sparse sources in one run where extent mapping is unsupported for the first only (as if it lived on
    // another file system): the later ones must still be copied sparsely
    {
        let mut jobs = vec![];
        for d in drivers() {
            let tree = vec![
                Entry::new("a", Kind::File(Content::Layout { unit: MIB, units: vec![true, false, false, true], tail: 0, seed: 41 })),
                Entry::new("b", Kind::File(Content::Layout { unit: MIB, units: vec![false, true, false, false], tail: 0, seed: 42 })),
                Entry::new("c", Kind::File(many_extents(5, MIB))),
                Entry::dir("dst"),
            ];
            let s = std::sync::Arc::new(Scenario::new(&format!("first-source-without-fiemap-{}", d), tree, &["--driver", d, "-w", "2", "--block-size", "1MB", "a", "b", "c", "dst"]));
            let mut sp = RunSpec::base(Policy::P0);
            sp.faults.push(crate::sup::Fault { call: "ioctl:FIEMAP".into(), thread: None, nth: Some(1), path_contains: None, action: crate::sup::Action::Errno(libc::EOPNOTSUPP) });
            jobs.push((s, sp, 0usize));
        }
        let jl: Judge = &judge_later_sources;
        let st = crate::explore::explore(&ctx.pool, jobs, jl);
        rep.part("three sparse sources, extent mapping unsupported for the first only", st, serde_json::json!({}));
    }
    rep.assumptions = vec!["ext4 sandbox: SEEK_HOLE and FIEMAP are real; st_blocks includes delayed allocation".into()];
    rep
}
