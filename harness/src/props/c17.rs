//! C17 — --gitignore copies exactly the entries the root .gitignore does not exclude (oracle: git itself)

use super::*;
use crate::explore::Judge;
use crate::scen::{Content, Entry, Kind};
use std::collections::BTreeSet;
use std::io::Write;

fn tree_base() -> Vec<Entry> {
    let mut v = vec![Entry::dir("src")];
    for d in ["src/d", "src/d/e", "src/f", "src/f/a", "src/src", "src/src/d"] {
        v.push(Entry::dir(d));
    }
    for f in ["src/a", "src/b", "src/a.txt", "src/.h", "src/d/a", "src/d/b.txt", "src/d/e/a", "src/d/e/c", "src/f/a/z", "src/src/a", "src/src/d/a"] {
        v.push(Entry::file(f, f));
    }
    v
}

pub fn alphabet() -> Vec<&'static str> {
    vec!["a", "/a", "a/", "d", "d/", "/d/", "*", "*.txt", "?", "d/*", "**/a", "d/**", "!a", "!d/a", "!d/", "!*.txt", "!d", "#c", "", ".h", ".*", "d/e", "e/", "**/e/", "/d/a", "f/a", "!f/a/", "/src/a", "/d", "src/d/"]
}

/// ask git which of the source entries are ignored under this .gitignore
pub fn git_ignored(w: &Worker, scen: &Scenario) -> Result<BTreeSet<String>, String> {
    git_ignored_root(w, scen, "src")
}

/// which entries below `root` (a source directory of the scenario) git ignores under root/.gitignore
pub fn git_ignored_root(w: &Worker, scen: &Scenario, root: &str) -> Result<BTreeSet<String>, String> {
    let pre = format!("{}/", root);
    let pre = pre.as_str();
    let repo = format!("{}/gitrepo", w.base_ext4);
    let stamp = format!("{}/.stamp", repo);
    let paths: Vec<String> = scen.tree.iter().filter(|e| e.path.starts_with(pre)).map(|e| e.path[pre.len()..].to_string()).collect();
    let key = crate::util::hash_bytes(format!("{}\n{}", root, paths.join("\n")).as_bytes()).to_string();
    let env = |c: &mut std::process::Command| {
        c.env_clear().env("PATH", "/usr/bin:/bin").env("HOME", &repo).env("XDG_CONFIG_HOME", format!("{}/.xdg", repo)).env("GIT_CONFIG_GLOBAL", "/dev/null").env("GIT_CONFIG_SYSTEM", "/dev/null").env("GIT_CONFIG_NOSYSTEM", "1").env("LC_ALL", "C");
    };
    if std::fs::read_to_string(&stamp).ok().as_deref() != Some(key.as_str()) {
        let _ = std::fs::remove_dir_all(&repo);
        std::fs::create_dir_all(&repo).map_err(|e| e.to_string())?;
        let mut c = std::process::Command::new("git");
        c.args(["init", "-q", &repo]);
        env(&mut c);
        let st = c.status().map_err(|e| format!("git init: {}", e))?;
        if !st.success() {
            return Err("git init failed".into());
        }
        for e in scen.tree.iter().filter(|e| e.path.starts_with(pre)) {
            let p = format!("{}/{}", repo, &e.path[pre.len()..]);
            match &e.kind {
                Kind::Dir => std::fs::create_dir_all(&p).map_err(|e| e.to_string())?,
                Kind::File(_) => std::fs::write(&p, b"x").map_err(|e| e.to_string())?,
                _ => {}
            }
        }
        std::fs::write(&stamp, &key).map_err(|e| e.to_string())?;
    }
    let gi = scen.tree.iter().find(|e| e.path == format!("{}.gitignore", pre)).and_then(|e| e.content()).map(|c| c.bytes()).unwrap_or_default();
    std::fs::write(format!("{}/.gitignore", repo), &gi).map_err(|e| e.to_string())?;
    let mut c = std::process::Command::new("git");
    c.args(["-C", &repo, "check-ignore", "--no-index", "--stdin"]);
    env(&mut c);
    c.stdin(std::process::Stdio::piped()).stdout(std::process::Stdio::piped()).stderr(std::process::Stdio::piped());
    let mut ch = c.spawn().map_err(|e| format!("git: {}", e))?;
    {
        let mut si = ch.stdin.take().unwrap();
        for p in &paths {
            let _ = writeln!(si, "{}", p);
        }
    }
    let out = ch.wait_with_output().map_err(|e| e.to_string())?;
    // exit 0 = some ignored, 1 = none ignored, 128 = error
    if out.status.code() != Some(0) && out.status.code() != Some(1) {
        return Err(format!("git check-ignore failed: {}", String::from_utf8_lossy(&out.stderr)));
    }
    Ok(String::from_utf8_lossy(&out.stdout).lines().map(|l| l.trim().to_string()).filter(|l| !l.is_empty()).collect())
}

pub fn judge(w: &Worker, scen: &Scenario, ex: &Exec) -> Judgement {
    let mut v = vec![];
    let all: Vec<String> = scen.tree.iter().filter(|e| e.path.starts_with("src/")).map(|e| e.path["src/".len()..].to_string()).collect();
    let use_gi = scen.args.iter().any(|a| a == "--gitignore");
    let mut nontrivial = false;
    let expected: BTreeSet<String> = if use_gi {
        match git_ignored(w, scen) {
            Ok(ig) => {
                nontrivial = !ig.is_empty();
                all.iter()
                    .filter(|p| {
                        let mut q = p.as_str();
                        loop {
                            if ig.contains(q) {
                                return false;
                            }
                            match q.rfind('/') {
                                Some(i) => q = &q[..i],
                                None => return true,
                            }
                        }
                    })
                    .cloned()
                    .collect()
            }
            Err(e) => {
                // the oracle itself failed: this is a machinery problem, reported as such through the outcome key
                return Judgement { violations: vec![], outcome_key: format!("ORACLE-ERROR {}", e), nontrivial: false };
            }
        }
    } else {
        all.iter().cloned().collect()
    };
    if exit0(ex) {
        let got: BTreeSet<String> = ex.snap.keys().filter(|k| k.starts_with("dst/")).map(|k| k["dst/".len()..].to_string()).collect();
        let missing: Vec<&String> = expected.difference(&got).collect();
        let extra: Vec<&String> = got.difference(&expected).collect();
        if !missing.is_empty() {
            v.push(format!("not copied although git does not ignore them: {:?}", missing));
        }
        if !extra.is_empty() {
            v.push(format!("copied although git ignores them: {:?}", extra));
        }
        // what was copied must be byte-identical too
        for k in got.intersection(&expected) {
            if let (Some(a), Some(b)) = (ex.snap.get(&format!("src/{}", k)), ex.snap.get(&format!("dst/{}", k))) {
                if a.kind != b.kind || (a.kind == 'f' && a.hash != b.hash) {
                    v.push(format!("{} differs from its source", k));
                }
            }
        }
    } else if !ex.res.outcome.is_hang() && ex.res.hit_sites.is_empty() {
        v.push(format!("valid copy ends with {}", ex.res.outcome.short()));
    }
    simple_judge(v, ex, nontrivial)
}

/// several source directories, each with its own (or no) .gitignore, copied into one existing directory
pub fn judge_multi(w: &Worker, scen: &Scenario, ex: &Exec) -> Judgement {
    let mut v = vec![];
    let mut nontrivial = false;
    if exit0(ex) {
        for root in ["a", "b", "c"] {
            let pre = format!("{}/", root);
            let all: Vec<String> = scen.tree.iter().filter(|e| e.path.starts_with(&pre)).map(|e| e.path[pre.len()..].to_string()).collect();
            let ig = match git_ignored_root(w, scen, root) {
                Ok(ig) => ig,
                Err(e) => return Judgement { violations: vec![], outcome_key: format!("ORACLE-ERROR {}", e), nontrivial: false },
            };
            nontrivial |= !ig.is_empty();
            let expected: BTreeSet<String> = all
                .iter()
                .filter(|p| {
                    let mut q = p.as_str();
                    loop {
                        if ig.contains(q) {
                            return false;
                        }
                        match q.rfind('/') {
                            Some(i) => q = &q[..i],
                            None => return true,
                        }
                    }
                })
                .cloned()
                .collect();
            let dpre = format!("dst/{}/", root);
            let got: BTreeSet<String> = ex.snap.keys().filter(|k| k.starts_with(&dpre)).map(|k| k[dpre.len()..].to_string()).collect();
            let missing: Vec<&String> = expected.difference(&got).collect();
            let extra: Vec<&String> = got.difference(&expected).collect();
            if !missing.is_empty() {
                v.push(format!("source {}: not copied although its .gitignore does not exclude them: {:?}", root, missing));
            }
            if !extra.is_empty() {
                v.push(format!("source {}: copied although its .gitignore excludes them: {:?}", root, extra));
            }
        }
    } else if !ex.res.outcome.is_hang() && ex.res.hit_sites.is_empty() {
        v.push(format!("valid copy ends with {}", ex.res.outcome.short()));
    }
    simple_judge(v, ex, nontrivial)
}

pub fn multi_scenarios() -> Vec<Scenario> {
    let texts: Vec<Option<&str>> = vec![None, Some("*.log\x0a"), Some("*.tmp\x0a/build/\x0a"), Some("d/\x0a!keep\x0a")];
    let mut v = vec![];
    for d in drivers() {
        for (i, ta) in texts.iter().enumerate() {
            for (k, tb) in texts.iter().enumerate() {
                for (m, tc) in texts.iter().enumerate() {
                    let mut tree = vec![Entry::dir("dst")];
                    for (root, t) in [("a", ta), ("b", tb), ("c", tc)] {
                        tree.push(Entry::dir(root));
                        for f in ["x.log", "y.tmp", "keep", "build/o", "d/z", "d/w.log"] {
                            if let Some((dir, _)) = f.split_once('/') {
                                let dp = format!("{}/{}", root, dir);
                                if !tree.iter().any(|e| e.path == dp) {
                                    tree.push(Entry::dir(&dp));
                                }
                            }
                            tree.push(Entry::file(&format!("{}/{}", root, f), f));
                        }
                        if let Some(t) = t {
                            tree.push(Entry::file(&format!("{}/.gitignore", root), t));
                        }
                    }
                    v.push(Scenario::new(&format!("gitignore-multi-{}{}{}-{}", i, k, m, d), tree, &["-r", "--gitignore", "--driver", d, "-w", "2", "a", "b", "c", "dst"]));
                }
            }
        }
    }
    v
}

pub fn scenarios(lines: usize) -> Vec<Scenario> {
    let al = alphabet();
    let mut texts: Vec<Vec<&str>> = vec![];
    fn rec<'a>(al: &[&'a str], cur: &mut Vec<&'a str>, depth: usize, out: &mut Vec<Vec<&'a str>>) {
        if !cur.is_empty() {
            out.push(cur.clone());
        }
        if depth == 0 {
            return;
        }
        for p in al {
            cur.push(p);
            rec(al, cur, depth - 1, out);
            cur.pop();
        }
    }
    rec(&al, &mut vec![], lines, &mut texts);
    let mut v = vec![];
    for d in drivers() {
        for t in &texts {
            let mut tree = tree_base();
            let mut body = t.join("\n");
            body.push('\n');
            tree.push(Entry::new("src/.gitignore", Kind::File(Content::Bytes(crate::util::esc(body.as_bytes())))));
            v.push(Scenario::new(&format!("gitignore-{}-[{}]", d, t.join("|")), tree, &["-r", "--gitignore", "--driver", d, "-w", "2", "src", "dst"]));
        }
        // without the option nothing is filtered
        for t in [vec!["*"], vec!["d/", "*.txt"]] {
            let mut tree = tree_base();
            tree.push(Entry::file("src/.gitignore", &format!("{}\n", t.join("\n")).replace('\n', "\\x0a")));
            v.push(Scenario::new(&format!("no-gitignore-option-{}-[{}]", d, t.join("|")), tree, &["-r", "--driver", d, "-w", "2", "src", "dst"]));
        }
        // no .gitignore file at all
        v.push(Scenario::new(&format!("gitignore-absent-{}", d), tree_base(), &["-r", "--gitignore", "--driver", d, "-w", "2", "src", "dst"]));
    }
    v
}

pub fn run(ctx: &Ctx) -> Report {
    let lines = if ctx.quick() { 2 } else { 3 };
    let mut rep = Report::new(
        "model_checking",
        "a fixed 17-entry source tree (including a directory named like the source root) x every .gitignore of 1..k lines over a 30-pattern alphabet (literals, *, ?, **/, trailing /, leading /, ! negation, comment, blank line, hidden names) x both drivers, plus controls without the option / without the file; oracle: git itself (`git check-ignore --no-index --stdin` in a scratch repository with global and system configuration disabled) decides each path, an entry is expected iff neither it nor an ancestor is ignored; the destination path set must equal the expected set; non-trivial = git ignores at least one entry, per distinct (scenario, trace)",
    );
    crate::explore::SNAP_BEFORE.store(false, std::sync::atomic::Ordering::Relaxed);
    let j: Judge = &judge;
    let sc = scenarios(lines);
    let n = sc.len();
    let st = scen_batch(ctx, sc, &[Policy::P0], j);
    let oracle_errors: Vec<String> = st.outcomes.keys().filter(|k| k.starts_with("ORACLE-ERROR")).cloned().collect();
    rep.part("gitignore texts x drivers", st, serde_json::json!({"lines": lines, "alphabet": alphabet(), "scenarios": n}));
    rep.machinery_errors.extend(oracle_errors);
    let jm: Judge = &judge_multi;
    let st = scen_batch(ctx, multi_scenarios(), &[Policy::P0], jm);
    rep.part("three source directories with every combination of four ignore files (one of them: none)", st, serde_json::json!({"combinations": 64}));
    // the ignore file itself may be unreadable: that must not silently mean "nothing is ignored"
    {
        let w = Worker::new(142, &ctx.pool.bins);
        let mut jobs = vec![];
        let mut errs = vec![];
        let mut nsites = 0;
        for d in drivers() {
            let mut tree = tree_base();
            tree.push(Entry::file("src/.gitignore", "d/\x0a*.txt\x0a"));
            let s = Scenario::new(&format!("gitignore-faults-{}", d), tree, &["-r", "--gitignore", "--driver", d, "-w", "2", "src", "dst"]);
            let sa = std::sync::Arc::new(s.clone());
            let base = RunSpec::base(Policy::P0);
            let rec = match w.run(&s, &base) {
                Ok(r) => r,
                Err(e) => {
                    errs.push(format!("recording run of {}: {}", s.name, e));
                    continue;
                }
            };
            let mut cnt: std::collections::BTreeMap<(usize, String), usize> = std::collections::BTreeMap::new();
            for e in &rec.events {
                let c = cnt.entry((e.th, e.name.clone())).or_insert(0);
                *c += 1;
                let on_gi = e.rel.as_deref() == Some("src/.gitignore");
                let errnos: Vec<i32> = match e.name.as_str() {
                    "openat" | "open" if on_gi => vec![libc::EACCES, libc::EIO, libc::EMFILE],
                    "read" if on_gi => vec![libc::EIO],
                    "statx" | "newfstatat" | "fstat" if on_gi => vec![libc::EIO],
                    // the filter asks whether an entry is a directory (directory-only patterns)
                    "statx" | "newfstatat" | "stat" | "lstat" if e.rel.as_deref().map(|r| r.starts_with("src/")).unwrap_or(false) => vec![libc::EIO, libc::EACCES],
                    "getdents64" if e.rel.as_deref().map(|r| r.starts_with("src")).unwrap_or(false) => vec![libc::EIO],
                    _ => vec![],
                };
                for en in errnos {
                    nsites += 1;
                    let mut sp = base.clone();
                    sp.faults.push(crate::sup::Fault { call: e.name.clone(), thread: Some(rec.threads[e.th].clone()), nth: Some(*c), path_contains: None, action: crate::sup::Action::Errno(en) });
                    jobs.push((sa.clone(), sp, 0usize));
                }
            }
        }
        let st = crate::explore::explore(&ctx.pool, jobs, j);
        rep.part("every open / read / stat of the .gitignore file, and every stat / listing of a source entry, failing", st, serde_json::json!({"fault_runs": nsites}));
        rep.machinery_errors.extend(errs);
    }
    rep.assumptions = vec!["git (2.39) is the specification of the pattern semantics".into()];
    rep
}
