//! C07 — xcp always terminates: no deadlock, no spin, with or without errors

use super::*;
use crate::explore::{explore, Judge};
use crate::monitor;
use crate::scen::{Entry, Kind};
use std::sync::Arc;

/// special files among the sources (not the destination operand, and not the ignore file, which --gitignore asks
/// to be read: there only the hang matters)
pub fn special_sources(scen: &Scenario) -> Vec<String> {
    let dest = scen.args.last().cloned().unwrap_or_default();
    scen.tree
        .iter()
        .filter(|e| matches!(e.kind, Kind::Fifo | Kind::Socket | Kind::Chr(..) | Kind::Blk(..)) && !e.path.starts_with("dst") && e.path != dest && !e.path.ends_with(".gitignore"))
        .map(|e| e.path.clone())
        .collect()
}

pub fn judge(_w: &Worker, scen: &Scenario, ex: &Exec) -> Judgement {
    let mut v = vec![];
    if ex.res.outcome.is_hang() {
        v.push(format!("execution does not terminate: {}", ex.res.outcome.short()));
    }
    v.extend(monitor::opened_or_read(&ex.res, &special_sources(scen)));
    if scen.prog == crate::scen::Prog::ApiProbe && !ex.res.outcome.is_hang() {
        let out = String::from_utf8_lossy(&ex.res.stdout);
        if !out.contains("COPY-RETURNED") {
            v.push("library client: copy() did not return".into());
        }
        if scen.args.iter().any(|a| a == "chan") && !out.contains("CHANNEL-CLOSED") {
            v.push("library client: the update channel did not close".into());
        }
    }
    let mut j = simple_judge(v, ex, true);
    // for termination the observable outcome is just the exit class
    j.outcome_key = ex.res.outcome.short();
    j
}

pub fn own_scenarios() -> Vec<Scenario> {
    let mut v = vec![];
    for d in drivers() {
        let dr = |name: &str, tree: Vec<Entry>, args: &[&str]| {
            let mut a: Vec<&str> = vec!["--driver", d];
            a.extend_from_slice(args);
            Scenario::new(&format!("{}-{}", name, d), tree, &a)
        };
        v.push(dr("empty-dir", vec![Entry::dir("src")], &["-r", "src", "dst"]));
        v.push(dr(
            "only-specials",
            vec![Entry::dir("src"), Entry::new("src/f1", Kind::Fifo), Entry::new("src/f2", Kind::Fifo), Entry::new("src/s", Kind::Socket), Entry::dir("src/d"), Entry::new("src/d/f3", Kind::Fifo)],
            &["-r", "-w", "2", "src", "dst"],
        ));
        v.push(dr("fifo-sole-source", vec![Entry::new("p", Kind::Fifo)], &["p", "q"]));
        // the only worker fails on the first of four files (destination is a directory where a file must go)
        v.push(dr(
            "worker-fails-first",
            vec![Entry::dir("src"), Entry::file("src/a", "aaaa"), Entry::file("src/b", "bbbb"), Entry::file("src/c", "cccc"), Entry::file("src/d", "dddd"), Entry::dir("dst"), Entry::dir("dst/a"), Entry::dir("dst/b"), Entry::dir("dst/c"), Entry::dir("dst/d")],
            &["-r", "-T", "-w", "1", "--block-size", "2", "src", "dst"],
        ));
        v.push(dr(
            "missing-dest-parent",
            vec![Entry::dir("src"), Entry::file("src/a", "aaaa"), Entry::file("src/b", "bbbb")],
            &["-r", "-w", "2", "src", "nowhere/dst"],
        ));
        v.push(dr(
            "block-size-zero",
            vec![Entry::dir("src"), Entry::file("src/a", "0123456789"), Entry::file("src/e", "")],
            &["-r", "-w", "2", "--block-size", "0", "src", "dst"],
        ));
        for upd in ["noop", "rec", "chan"] {
            let mut s = Scenario::new(&format!("api-block-size-zero-{}-{}", upd, d), vec![Entry::dir("src"), Entry::file("src/a", "0123456789"), Entry::file("src/e", "")], &["copy", d, "2", "0", upd, "dst", "src"]);
            s.prog = crate::scen::Prog::ApiProbe;
            v.push(s);
        }
        v.push(dr(
            "many-small-w3",
            (0..12).map(|i| Entry::file(&format!("src/f{:02}", i), "0123456789abcdef")).fold(vec![Entry::dir("src")], |mut a, e| {
                a.push(e);
                a
            }),
            &["-r", "-w", "3", "--block-size", "4", "src", "dst"],
        ));
    }
    v
}

/// special files wherever an input can have them, not only among the sources: at the destination path, behind a
/// link, under the name the ignore file has, selected by a pattern
pub fn special_anywhere_scenarios() -> Vec<Scenario> {
    let mut v = vec![];
    for d in drivers() {
        let dr = |name: &str, tree: Vec<Entry>, args: &[&str]| {
            let mut a: Vec<&str> = vec!["--driver", d];
            a.extend_from_slice(args);
            Scenario::new(&format!("{}-{}", name, d), tree, &a)
        };
        for (kn, k) in [("fifo", Kind::Fifo), ("socket", Kind::Socket), ("chr", Kind::Chr(1, 3))] {
            for (fl, flags) in [("plain", vec![]), ("backup", vec!["--backup", "numbered"]), ("noclobber", vec!["-n"]), ("fsync", vec!["--fsync"])] {
                let mut a: Vec<&str> = flags.clone();
                a.extend_from_slice(&["a", "q"]);
                v.push(dr(&format!("file-onto-{}-{}", kn, fl), vec![Entry::file("a", "aaaa"), Entry::new("q", k.clone())], &a));
                let mut a: Vec<&str> = flags.clone();
                a.extend_from_slice(&["a", "lq"]);
                v.push(dr(&format!("file-onto-link-to-{}-{}", kn, fl), vec![Entry::file("a", "aaaa"), Entry::new("q", k.clone()), Entry::link("lq", "q")], &a));
            }
            v.push(dr(
                &format!("tree-onto-earlier-copy-holding-{}", kn),
                vec![Entry::dir("src"), Entry::file("src/a", "aaaa"), Entry::file("src/b", "bbbb"), Entry::dir("src/d"), Entry::file("src/d/c", "cccc"), Entry::dir("dst"), Entry::new("dst/a", k.clone()), Entry::dir("dst/d"), Entry::new("dst/d/c", k.clone())],
                &["-r", "-T", "-w", "2", "src", "dst"],
            ));
            v.push(dr(&format!("ignore-file-is-{}", kn), vec![Entry::dir("src"), Entry::new("src/.gitignore", k.clone()), Entry::file("src/a", "aaaa")], &["-r", "--gitignore", "src", "dst"]));
            v.push(dr(&format!("link-to-{}-deref", kn), vec![Entry::new("p", k.clone()), Entry::link("lp", "p")], &["-L", "lp", "q"]));
            v.push(dr(&format!("glob-selects-{}", kn), vec![Entry::dir("src"), Entry::new("src/p", k.clone()), Entry::file("src/a", "aaaa"), Entry::dir("dst")], &["-r", "-g", "src/*", "dst"]));
        }
        v.push(dr("ignore-file-is-link-to-fifo", vec![Entry::dir("src"), Entry::new("src/p", Kind::Fifo), Entry::link("src/.gitignore", "p"), Entry::file("src/a", "aaaa")], &["-r", "--gitignore", "src", "dst"]));
        v.push(dr("ignore-file-is-dir", vec![Entry::dir("src"), Entry::dir("src/.gitignore"), Entry::file("src/a", "aaaa")], &["-r", "--gitignore", "src", "dst"]));
    }
    v
}

/// trees with several hundred entries: whatever buffers exist between walker and workers fill up
pub fn pending_scenarios() -> Vec<Scenario> {
    let mut v = vec![];
    let files = |t: &mut Vec<Entry>| {
        t.push(Entry::dir("files"));
        for i in 0..300 {
            t.push(Entry::file(&format!("files/f{:03}", i), "payload"));
        }
    };
    for d in drivers() {
        for w in [1usize, 3] {
            // every worker dies on a special file whose destination is a non-empty directory (an error that is
            // returned by the worker without a status update), then hundreds of operations are still to come
            let mut t = vec![Entry::dir("specials"), Entry::dir("dst"), Entry::dir("dst/specials")];
            for k in 0..w {
                t.push(Entry::new(&format!("specials/fifo{}", k), Kind::Fifo));
                t.push(Entry::dir(&format!("dst/specials/fifo{}", k)));
                t.push(Entry::file(&format!("dst/specials/fifo{}/keep", k), "x"));
            }
            files(&mut t);
            let ws = w.to_string();
            v.push(Scenario::new(&format!("pending-dead-workers-{}-w{}", d, w), t, &["-r", "--no-progress", "--driver", d, "-w", &ws, "specials", "files", "dst"]));
            // plain large tree for the injected failures
            let mut t = vec![Entry::dir("dst")];
            files(&mut t);
            t.push(Entry::new("files/node", Kind::Fifo));
            v.push(Scenario::new(&format!("pending-faults-{}-w{}", d, w), t, &["-r", "--no-progress", "--driver", d, "-w", &ws, "files", "dst"]));
        }
        // library client that keeps draining the channel after an error
        let mut t = vec![Entry::dir("dst")];
        files(&mut t);
        let mut s = Scenario::new(&format!("pending-api-{}-w1", d), t, &["copy", d, "1", "max", "chan", "dst", "files"]);
        s.prog = crate::scen::Prog::ApiProbe;
        v.push(s);
    }
    v
}

pub fn run(ctx: &Ctx) -> Report {
    let mut rep = Report::new(
        "model_checking",
        "all executions with at most d scheduling deviations (C06's sets plus termination-specific scenarios: empty tree, FIFOs/sockets only, failing worker, failing dispatcher), and every single injected system-call failure of C04's site list with and without one deviation; oracle: the supervisor owns all blocking (futex emulation), so 'no runnable thread' is deadlock, the step budget catches spinning, a blocking open/read of a FIFO is decided structurally; non-trivial = distinct system-call trace",
    );
    let j: Judge = &judge;
    for (name, jobs) in sets::schedule_jobs_level(if ctx.quick() { 0 } else { 1 }, &|s| s) {
        if ctx.quick() && name.starts_with("tiny parblock") {
            continue; // the d<=2 search on the tiny scenario is C06's and C18's in the quick tier (time budget)
        }
        let st = explore(&ctx.pool, jobs, j);
        rep.part(&name, st, serde_json::json!({"policies": ["P0", "P1"]}));
    }
    let d = if ctx.quick() { 1 } else { 2 };
    let mut jobs = vec![];
    for s in own_scenarios() {
        // two deviations on the twelve-file scenario alone would be several hundred thousand executions
        let ds = if s.name.starts_with("many-small") { 1 } else { d };
        let s = Arc::new(s);
        for b in base_specs() {
            jobs.push((s.clone(), b, ds));
        }
    }
    let st = explore(&ctx.pool, jobs, j);
    rep.part("termination scenarios", st, serde_json::json!({"d": d}));
    let d0 = if ctx.quick() { 0 } else { 1 };
    let mut jobs = vec![];
    for s in special_anywhere_scenarios() {
        let s = Arc::new(s);
        for b in base_specs() {
            jobs.push((s.clone(), b, d0));
        }
    }
    let st = explore(&ctx.pool, jobs, j);
    rep.part("special files at the destination path, behind links, as the ignore file, selected by a pattern", st, serde_json::json!({"d": d0}));
    // more pending operations than any queue could hold while the consumers are dead or slow
    let mut jobs = vec![];
    for s in pending_scenarios() {
        let nfifo = s.tree.iter().filter(|e| matches!(e.kind, Kind::Fifo) && e.path.starts_with("specials/")).count();
        let driver = match s.args.iter().position(|a| a == "--driver") {
            Some(i) => s.args[i + 1].clone(),
            None => s.args[1].clone(),
        };
        let s = Arc::new(s);
        let mut specs = base_specs();
        // walker first / walker last
        let (first, last): (Vec<String>, Vec<String>) = if driver == "parfile" {
            (vec!["0.1.1".into(), "0.1".into(), "0".into()], vec!["0".into(), "0.1".into(), "0.1.2".into(), "0.1.3".into(), "0.1.4".into(), "0.1.1".into()])
        } else {
            (vec!["0.1.2".into(), "0.1.1".into(), "0.1".into(), "0".into()], vec!["0".into(), "0.1".into(), "0.1.1.*".into(), "0.1.1".into(), "0.1.2".into()])
        };
        specs.push(RunSpec::base(Policy::Prio(first)));
        specs.push(RunSpec::base(Policy::Prio(last)));
        for mut sp in specs {
            sp.step_limit = 3_000_000;
            jobs.push((s.clone(), sp.clone(), 0usize));
            if nfifo == 0 {
                // the same through injected failures: the first worker call of each class fails
                for (call, en) in [("mknodat", libc::EPERM), ("copy_file_range", libc::EIO), ("openat", libc::EMFILE), ("ftruncate", libc::ENOSPC)] {
                    let mut f = sp.clone();
                    f.faults.push(crate::sup::Fault { call: call.into(), thread: None, nth: Some(if call == "openat" { 3 } else { 1 }), path_contains: if call == "openat" { Some("dst/".into()) } else { None }, action: crate::sup::Action::Errno(en) });
                    jobs.push((s.clone(), f, 0usize));
                }
            }
        }
    }
    let st = explore(&ctx.pool, jobs, j);
    rep.part("more pending operations than a queue holds, workers dying or failing", st, serde_json::json!({"files": 300}));
    // short counts: a retry loop must make progress
    {
        let w = Worker::new(147, &ctx.pool.bins);
        let mut errs = vec![];
        let mut jobs = vec![];
        for d in drivers() {
            for (n, bflag) in [(5u64, vec!["--block-size", "3"]), (10, vec!["--block-size", "4"]), (10, vec!["--no-progress"])] {
                let s = c05::file_scen(&format!("short-{}-{}-{}", n, d, bflag.join("")), crate::scen::Content::Gen { len: n, seed: n }, d, &bflag, crate::scen::Prog::Xcp);
                jobs.extend(c05::clamp_jobs(&w, &s, &[], &|req| (1..req).collect(), false, &mut errs));
                for c in [1u64, 2] {
                    let mut sp = RunSpec::base(Policy::P0);
                    sp.step_limit = c05::STEP_LIMIT;
                    sp.faults.push(crate::sup::Fault { call: "DATA".into(), thread: None, nth: None, path_contains: None, action: crate::sup::Action::Clamp(c) });
                    jobs.push((Arc::new(s.clone()), sp, 0));
                }
                // the user-space fallback has its own loops
                let absent = vec![crate::sup::Fault { call: "copy_file_range".into(), thread: None, nth: None, path_contains: None, action: crate::sup::Action::Errno(libc::ENOSYS) }];
                jobs.extend(c05::clamp_jobs(&w, &s, &absent, &|req| (1..req).collect(), true, &mut errs));
            }
        }
        let st = explore(&ctx.pool, jobs, j);
        rep.part("short counts at every data-moving call (retry loops must terminate)", st, serde_json::json!({"sizes": [5, 10]}));
        rep.machinery_errors.extend(errs);
    }
    // fault runs: every single fault of C04's enumeration, re-judged for termination
    let (st, nsites) = c04::fault_sweep(ctx, j, if ctx.quick() { 0 } else { 1 });
    rep.part("single injected failures (C04's sites)", st, serde_json::json!({"sites": nsites, "deviations_on_top": if ctx.quick() { 0 } else { 1 }}));
    if !ctx.pool.bins.apiprobe.is_empty() {
        let st = explore(&ctx.pool, c12::api_jobs(ctx, true), j);
        rep.part("library client (apiprobe): copy() returns and the channel closes", st, serde_json::json!({"d": 1}));
    }
    rep.assumptions = vec!["hangs are decided structurally by the supervisor; the wall-clock cap applies only to a thread stuck inside a real kernel call".into(), "step budget 60000 per execution (millions for the 300-file scenarios); no exploration below an execution that already hangs".into()];
    rep
}
