//! C02 — exit 0 implies the destination tree mirrors the selected source tree (cp's mapping rule)

use super::*;
use crate::explore::Judge;
use crate::scen::Entry;

pub fn judge(w: &Worker, scen: &Scenario, ex: &Exec) -> Judgement {
    let exp = model::expect(scen);
    if exp.reject.is_some() {
        // rejection classes are C16's business
        return simple_judge(vec![], ex, false);
    }
    let mut v = judge_exit0_tree(w, scen, ex, &exp, Level::Content);
    if let Some(why) = &exp.must_fail {
        // a selected source that cannot be mapped (e.g. a link that cannot be resolved under -L) leaves a gap
        if exit0(ex) {
            v.push(format!("exit 0 although {}", why));
        }
    }
    v.extend(model::untouched(&exp, &ex.before, &ex.snap));
    v.truncate(8);
    simple_judge(v, ex, exit0(ex))
}

/// source components: (top-level name, is_dir, entries)
fn components(thorough: bool) -> Vec<(&'static str, bool, Vec<Entry>)> {
    let mut v = vec![
        ("a", false, vec![Entry::file("a", "content of a")]),
        ("b c", false, vec![Entry::file("b c", "content of b c")]),
        ("\\xc3\\xbc", false, vec![Entry::file("\\xc3\\xbc", "content of u-umlaut")]),
        (".h", false, vec![Entry::file(".h", "hidden")]),
        ("s", true, vec![Entry::dir("s"), Entry::file("s/a", "s/a"), Entry::file("s/b c", "s/b c")]),
        ("t", true, vec![Entry::dir("t"), Entry::dir("t/sub"), Entry::file("t/sub/\\xff", "non-utf8 name"), Entry::file("t/sub/\\xc3\\xbc", "umlaut"), Entry::file("t/.h", "hidden in t"), Entry::dir("t/empty")]),
        ("k", true, vec![Entry::dir("k"), Entry::file("k/a", "k/a"), Entry::link("k/lr", "a"), Entry::link("k/la", "{R}/k/a"), Entry::link("k/ld", "nowhere"), Entry::link("k/lup", "../a")]),
        ("l", false, vec![Entry::file("ltarget", "target of l"), Entry::link("l", "ltarget")]),
    ];
    // unusual but legal names: the longest name a directory entry can have, glob metacharacters (no --glob), a
    // leading dash, a newline, names that look like backups or end in dot / tilde / blank, prefix-related names, and
    // a chain of directories deeper than any constant in the code
    {
        let long = "L".repeat(255);
        let mut es = vec![Entry::dir("n")];
        for (i, name) in [long.as_str(), "-dash", "a\\x0ab", "star*", "q?", "[b]", "b", "tilde~", "dot.", "x.~1~", "..two", " lead", "trail ", "ab", "ab.d", "a\\\\b", "{}"].iter().enumerate() {
            es.push(Entry::file(&format!("n/{}", name), &format!("unusual name #{}", i)));
        }
        let mut p = "n".to_string();
        for i in 0..24 {
            p = format!("{}/d{}", p, i);
            es.push(Entry::dir(&p));
        }
        es.push(Entry::file(&format!("{}/bottom", p), "at the bottom of 24 levels"));
        v.push(("n", true, es));
    }
    if thorough {
        v.push(("deep", true, vec![Entry::dir("deep"), Entry::dir("deep/d1"), Entry::dir("deep/d1/d2"), Entry::file("deep/d1/d2/f", "deep f"), Entry::link("deep/d1/up", "../..")]));
    }
    v
}

pub fn scenarios(thorough: bool) -> Vec<Scenario> {
    let comps = components(thorough);
    let mut v = vec![];
    // source selections: every single component, and pairs
    let mut sels: Vec<Vec<usize>> = (0..comps.len()).map(|i| vec![i]).collect();
    for i in 0..comps.len() {
        for j in (i + 1)..comps.len() {
            if thorough || (i + j) % 2 == 1 {
                sels.push(vec![i, j]);
            }
        }
    }
    if thorough {
        sels.push(vec![0, 4, 6]);
        sels.push(vec![1, 5, 7]);
    }
    let dest_states = ["absent", "file", "emptydir", "earlier", "earlier-kinds", "bystanders", "linktodir"];
    let spellings = ["plain", "slash-src", "slash-dst", "dot", "abs"];
    let flagsets = ["-", "-T", "--target-directory", "-L"];
    for d in drivers() {
        for sel in &sels {
            for ds in dest_states {
                for sp in spellings {
                    for fl in flagsets {
                        if fl == "-T" && sel.len() > 1 {
                            continue; // several sources onto one path: outcome undefined
                        }
                        let any_dir = sel.iter().any(|&i| comps[i].1);
                        if sp == "slash-src" && !any_dir {
                            continue;
                        }
                        // thin out the product in the quick tier, deterministically
                        let h = crate::util::hash_bytes(format!("{}{:?}{}{}{}", d, sel, ds, sp, fl).as_bytes());
                        let _ = h;
                        let mut tree: Vec<Entry> = vec![];
                        for &i in sel {
                            tree.extend(comps[i].2.clone());
                        }
                        match ds {
                            "file" => tree.push(Entry::file("dst", "existing destination file").mtime(1_200_000_000, 1)),
                            "emptydir" => tree.push(Entry::dir("dst")),
                            "earlier" => {
                                // an earlier copy of the same sources, with content and link texts changed since
                                tree.push(Entry::dir("dst"));
                                let mut extra = vec![];
                                for &i in sel {
                                    for e in &comps[i].2 {
                                        if e.path == "ltarget" {
                                            continue;
                                        }
                                        let mut e2 = e.clone();
                                        e2.path = format!("dst/{}", e.path);
                                        match &mut e2.kind {
                                            crate::scen::Kind::File(c) => *c = crate::scen::Content::lit("EARLIER VERSION, longer than the new one"),
                                            crate::scen::Kind::Symlink(t) => *t = "changed-since".into(),
                                            _ => {}
                                        }
                                        extra.push(e2);
                                    }
                                }
                                tree.extend(extra);
                            }
                            "earlier-kinds" => {
                                // an earlier copy in which entries have changed kind since: files or dangling links where
                                // the source now has directories, a directory where the source has a file
                                tree.push(Entry::dir("dst"));
                                let mut extra = vec![];
                                let mut swapped: Vec<String> = vec![];
                                for &i in sel {
                                    for e in &comps[i].2 {
                                        if e.path == "ltarget" || swapped.iter().any(|s| e.path.starts_with(&format!("{}/", s))) {
                                            continue;
                                        }
                                        let mut e2 = e.clone();
                                        e2.path = format!("dst/{}", e.path);
                                        let is_leaf_dir = matches!(e.kind, crate::scen::Kind::Dir) && !comps[i].2.iter().any(|o| o.path.starts_with(&format!("{}/", e.path)));
                                        match &e.kind {
                                            crate::scen::Kind::Dir if is_leaf_dir => {
                                                e2.kind = if h % 2 == 0 { crate::scen::Kind::File(crate::scen::Content::lit("was a file")) } else { crate::scen::Kind::Symlink("gone".into()) };
                                                swapped.push(e.path.clone());
                                            }
                                            crate::scen::Kind::File(_) if e.path.ends_with("/a") => {
                                                e2.kind = crate::scen::Kind::Dir;
                                            }
                                            _ => {}
                                        }
                                        extra.push(e2);
                                    }
                                }
                                tree.extend(extra);
                            }
                            "bystanders" => {
                                tree.push(Entry::dir("dst"));
                                tree.push(Entry::file("dst/zz-bystander", "leave me").mtime(1_200_000_001, 2).mode(0o600));
                                tree.push(Entry::dir("dst/zz-dir"));
                                tree.push(Entry::file("dst/zz-dir/inner", "me too").mtime(1_200_000_002, 3));
                            }
                            "linktodir" => {
                                tree.push(Entry::dir("realdst"));
                                tree.push(Entry::file("realdst/zz-bystander", "leave me").mtime(1_200_000_001, 2));
                                tree.push(Entry::link("dst", "realdst"));
                            }
                            _ => {}
                        }
                        tree.push(Entry::file("outside-bystander", "not involved").mtime(1_200_000_009, 9));
                        // worker count varies with the scenario (1 is a boundary: a single consumer)
                        let wk = ["1", "2", "4"][(h % 3) as usize];
                        let mut args: Vec<String> = vec!["-r".into(), "--driver".into(), d.into(), "-w".into(), wk.into()];
                        let spell = |name: &str, is_dir: bool, is_src: bool| -> String {
                            match sp {
                                "slash-src" if is_src && is_dir => format!("{}/", name),
                                "slash-dst" if !is_src => format!("{}/", name),
                                "dot" => format!("./{}", name),
                                "abs" => format!("{{R}}/{}", name),
                                _ => name.to_string(),
                            }
                        };
                        let dst = spell("dst", true, false);
                        match fl {
                            "-T" => args.push("-T".into()),
                            "-L" => args.push("-L".into()),
                            "--target-directory" => {
                                args.push("--target-directory".into());
                                args.push(dst.clone());
                            }
                            _ => {}
                        }
                        for &i in sel {
                            args.push(spell(comps[i].0, comps[i].1, true));
                        }
                        if fl != "--target-directory" {
                            args.push(dst);
                        }
                        let ar: Vec<&str> = args.iter().map(|s| s.as_str()).collect();
                        let names: Vec<&str> = sel.iter().map(|&i| comps[i].0).collect();
                        v.push(Scenario::new(&format!("map-{}-[{}]-dst:{}-{}-{}", d, names.join(","), ds, sp, fl), tree, &ar));
                    }
                }
            }
        }
        // sources selected by --glob patterns
        for (pn, pats) in [("star", vec!["s*"]), ("qmark", vec!["?"]), ("two", vec!["a", "s*"]), ("inner", vec!["s/*"]), ("hidden", vec![".*h"]), ("all", vec!["*"])] {
            for ds in ["absent", "emptydir", "bystanders"] {
                let mut tree = vec![];
                for i in [0usize, 3, 4] {
                    tree.extend(comps[i].2.clone());
                }
                tree.push(Entry::file("sx", "also matches s*"));
                match ds {
                    "emptydir" => tree.push(Entry::dir("dst")),
                    "bystanders" => {
                        tree.push(Entry::dir("dst"));
                        tree.push(Entry::file("dst/zz-bystander", "leave me").mtime(1_200_000_001, 2));
                    }
                    _ => {}
                }
                let mut args: Vec<&str> = vec!["-r", "-g", "--driver", d, "-w", "2"];
                args.extend(pats.iter());
                args.push("dst");
                let mut s = Scenario::new(&format!("map-glob-{}-{}-dst:{}", pn, d, ds), tree, &args);
                // patterns are expanded relative to the working directory; keep dst out of '*'
                if pn == "all" || pn == "qmark" {
                    s.cwd = "w".into();
                    for e in s.tree.iter_mut() {
                        if !e.path.starts_with("dst") {
                            e.path = format!("w/{}", e.path);
                        }
                    }
                    s.tree.insert(0, Entry::dir("w"));
                    let n = s.args.len();
                    s.args[n - 1] = "../dst".into();
                }
                v.push(s);
            }
        }
        // run from a sub-directory, relative paths climbing up
        let mut tree = vec![Entry::dir("w"), Entry::dir("w/inner")];
        tree.extend(comps[4].2.iter().cloned().map(|mut e| {
            e.path = format!("w/{}", e.path);
            e
        }));
        tree.push(Entry::dir("out"));
        let mut s = Scenario::new(&format!("map-cwd-sub-{}", d), tree, &["-r", "--driver", d, "../s", "../../out"]);
        s.cwd = "w/inner".into();
        v.push(s);
    }
    v
}

pub fn run(ctx: &Ctx) -> Report {
    let mut rep = Report::new(
        "model_checking",
        "source selections (single components and pairs: files with plain / space / unicode / hidden names, directories with nested directories, non-UTF-8 names, relative / absolute / dangling / upward links, a link as source) x destination state {absent, file, empty dir, dir holding an earlier copy with changed content and link texts, dir with bystanders, link to a dir} x spelling {plain, trailing slash on source / destination, ./ prefix, absolute} x {-, -T, --target-directory, -L} x both drivers, plus sources selected by --glob patterns and relative paths from a sub-directory; executed by the real binary under P0 and P1; oracle: reference model of cp's mapping rule: exit 0 => the whole sandbox equals the expected tree (kinds, bytes, link texts, nothing unexpected anywhere), and whatever the exit status every entry that is no mapped target is identical before/after; non-trivial = exited 0 on an invocation the model does not classify as rejected, per distinct (scenario, trace)",
    );
    let j: Judge = &judge;
    let sc = scenarios(!ctx.quick());
    let n = sc.len();
    let st = scen_batch(ctx, sc, &[Policy::P0, Policy::P1], j);
    rep.part("mapping scenarios", st, serde_json::json!({"scenarios": n}));
    // the mapping must not depend on the schedule either: every execution with <= d deviations (pre-emptions, and
    // timed waits expiring first) on a small tree, one and two workers
    {
        let mut jobs = vec![];
        for d in drivers() {
            for w in [1u32, 2] {
                let s = std::sync::Arc::new(sets::s1_driver(d, w));
                for b in [RunSpec::base(Policy::P0), RunSpec::base(Policy::P1), RunSpec::base(Policy::P2)] {
                    jobs.push((s.clone(), b, if ctx.quick() { 1usize } else { 2 }));
                }
            }
        }
        let st = crate::explore::explore(&ctx.pool, jobs, j);
        rep.part("schedule search on a small tree, workers {1,2}, base policies P0 / P1 / P2", st, serde_json::json!({"d": if ctx.quick() { 1 } else { 2 }}));
    }
    rep.assumptions = vec!["out of the alphabet because the property does not define the outcome: two sources mapping onto the same path, sources spelled . or .., a destination inside a source".into()];
    rep
}
