//! C05 — correct under short I/O counts and absent kernel copy/clone/extent support

use super::*;
use crate::explore::{explore, Judge};
use crate::scen::{Content, Entry, Kind, Prog};
use crate::sup::{Action, Fault};
use std::sync::Arc;

pub fn judge(w: &Worker, scen: &Scenario, ex: &Exec) -> Judgement {
    let exp = model::expect(scen);
    let mut v = judge_exit0_tree(w, scen, ex, &exp, Level::Content);
    if ex.res.outcome.is_hang() {
        // "either a byte-exact destination and exit 0, or a non-zero exit": never finishing is neither
        v.push(format!("the copy never finishes: {} (after {})", ex.res.outcome.short(), ex.res.hit_sites.join(", ")));
    }
    simple_judge(v, ex, !ex.res.hit_sites.is_empty())
}

/// a copy of a few bytes takes a few hundred steps; anything near this budget is spinning
pub const STEP_LIMIT: usize = 30_000;

pub fn file_scen(name: &str, content: Content, driver: &str, bflag: &[&str], prog: Prog) -> Scenario {
    let tree = vec![Entry::new("f", Kind::File(content)).mode(0o644)];
    let mut args: Vec<&str> = vec!["--driver", driver, "-w", "2"];
    args.extend_from_slice(bflag);
    args.extend_from_slice(&["f", "g"]);
    let mut s = Scenario::new(name, tree, &args);
    s.prog = prog;
    s
}

fn absent(call: &str, errno: i32) -> Fault {
    Fault { call: call.into(), thread: None, nth: None, path_contains: None, action: Action::Errno(errno) }
}

/// facility-absent combinations: (label, faults applied to every occurrence)
fn absent_sets() -> Vec<(String, Vec<Fault>)> {
    use libc::*;
    let mut v: Vec<(String, Vec<Fault>)> = vec![];
    for (n, e) in [("ENOSYS", ENOSYS), ("EXDEV", EXDEV), ("EPERM", EPERM)] {
        v.push((format!("cfr={}", n), vec![absent("copy_file_range", e)]));
    }
    for (n, e) in [("EOPNOTSUPP", EOPNOTSUPP), ("EINVAL", EINVAL), ("EXDEV", EXDEV)] {
        v.push((format!("clone={}", n), vec![absent("ioctl:FICLONE", e)]));
    }
    v.push(("fiemap=EOPNOTSUPP".into(), vec![absent("ioctl:FIEMAP", EOPNOTSUPP)]));
    // a file system without SEEK_DATA / SEEK_HOLE answers EINVAL
    v.push(("seekdata=EINVAL".into(), vec![absent("lseek:DATA", EINVAL)]));
    v.push(("seekhole=EINVAL".into(), vec![absent("lseek:HOLE", EINVAL)]));
    v.push(("seekdata+seekhole=EINVAL".into(), vec![absent("lseek:DATA", EINVAL), absent("lseek:HOLE", EINVAL)]));
    v.push(("cfr=ENOSYS+fiemap=EOPNOTSUPP".into(), vec![absent("copy_file_range", ENOSYS), absent("ioctl:FIEMAP", EOPNOTSUPP)]));
    v
}

/// every (data-moving call occurrence, clamp value) of a recording run made with `base_faults`
pub fn clamp_jobs(w: &Worker, s: &Scenario, base_faults: &[Fault], clamps: &dyn Fn(u64) -> Vec<u64>, eintr: bool, errs: &mut Vec<String>) -> Vec<(Arc<Scenario>, RunSpec, usize)> {
    let sa = Arc::new(s.clone());
    let mut base = RunSpec::base(Policy::P0);
    base.faults = base_faults.to_vec();
    base.step_limit = STEP_LIMIT;
    let mut jobs = vec![(sa.clone(), base.clone(), 0usize)];
    let rec = match w.run(s, &base) {
        Ok(r) => r,
        Err(e) => {
            errs.push(format!("recording run of {}: {}", s.name, e));
            return jobs;
        }
    };
    let mut cnt: std::collections::BTreeMap<(usize, String), usize> = std::collections::BTreeMap::new();
    for e in &rec.events {
        if !e.is_data_move() {
            continue;
        }
        let c = cnt.entry((e.th, e.name.clone())).or_insert(0);
        *c += 1;
        if e.inj == 1 {
            continue;
        }
        let req = match e.name.as_str() {
            "copy_file_range" => e.a[4],
            "sendfile" => e.a[3],
            _ => e.a[2],
        };
        for cl in clamps(req) {
            if cl == 0 || cl >= req {
                continue;
            }
            let mut sp = base.clone();
            sp.faults.push(Fault { call: e.name.clone(), thread: Some(rec.threads[e.th].clone()), nth: Some(*c), path_contains: None, action: Action::Clamp(cl) });
            jobs.push((sa.clone(), sp, 0));
        }
        if eintr && e.name == "read" {
            let mut sp = base.clone();
            sp.faults.push(Fault { call: e.name.clone(), thread: Some(rec.threads[e.th].clone()), nth: Some(*c), path_contains: None, action: Action::Errno(libc::EINTR) });
            jobs.push((sa.clone(), sp, 0));
        }
    }
    jobs
}

pub fn run(ctx: &Ctx) -> Report {
    let mut rep = Report::new(
        "fault_enumeration",
        "files of 1..10 bytes (and 4KiB-unit data/hole layouts) x block sizes {3, n, usize::MAX} x both drivers: a recording run lists every data-moving call; one execution of the real binary per (call occurrence, legal short count 1..requested-1) with the length register clamped so the kernel really performs the shorter transfer; 'small kernel' runs clamp every call; facility-absent runs answer copy_file_range/FICLONE/FIEMAP with ENOSYS/EXDEV/EPERM/EOPNOTSUPP/EINVAL and are combined with every single clamp and read->EINTR on the user-space fallback; the same for a build without the Linux backend; oracle: exit 0 => byte-exact destination; non-trivial = the altered call was reached, counted per distinct trace",
    );
    let j: Judge = &judge;
    let w = Worker::new(149, &ctx.pool.bins);
    let mut errs = vec![];
    let q = ctx.quick();
    let progs: Vec<(Prog, &str)> = if ctx.pool.bins.xcp_nolinux.is_empty() { vec![(Prog::Xcp, "linux")] } else { vec![(Prog::Xcp, "linux"), (Prog::XcpNoLinux, "nolinux")] };
    if ctx.pool.bins.xcp_nolinux.is_empty() {
        rep.extra.insert("nolinux_build".into(), serde_json::json!("NOT RUN: the build without the Linux backend could not be produced"));
    }
    for (prog, pname) in &progs {
        // (a) every single legal short count on tiny dense files
        let mut jobs = vec![];
        let sizes: Vec<u64> = if q { vec![1, 2, 3, 4, 7, 10] } else { (1..=16).collect() };
        for &n in &sizes {
            for d in drivers() {
                let ns = n.to_string();
                for (bl, bflag) in [("B3", vec!["--block-size", "3"]), ("Bn", vec!["--block-size", ns.as_str()]), ("Bmax", vec!["--no-progress"])] {
                    let s = file_scen(&format!("dense-{}-{}-{}-{}", n, d, bl, pname), Content::Gen { len: n, seed: n }, d, &bflag, *prog);
                    jobs.extend(clamp_jobs(&w, &s, &[], &|req| (1..req).collect(), false, &mut errs));
                    // (b) small kernel: every data-moving call moves at most c bytes
                    for c in [1u64, 2, 3] {
                        let mut sp = RunSpec::base(Policy::P0);
                        sp.step_limit = STEP_LIMIT;
                        sp.faults.push(Fault { call: "DATA".into(), thread: None, nth: None, path_contains: None, action: Action::Clamp(c) });
                        jobs.push((Arc::new(s.clone()), sp, 0));
                    }
                }
            }
        }
        let st = explore(&ctx.pool, jobs, j);
        rep.part(&format!("[{}] every single short count + small-kernel runs, dense files", pname), st, serde_json::json!({"sizes": sizes, "block_sizes": ["3", "n", "usize::MAX"]}));

        // (c) facility absent, alone and with every clamp / EINTR on the fallback path
        if *prog == Prog::Xcp {
            let mut jobs = vec![];
            for &n in if q { &[1u64, 5, 10][..] } else { &[1u64, 2, 5, 9, 10, 16][..] } {
                for d in drivers() {
                    let ns = n.to_string();
                    for (bl, bflag) in [("B3", vec!["--block-size", "3"]), ("Bn", vec!["--block-size", ns.as_str()]), ("Bmax", vec!["--no-progress"])] {
                        for (al, faults) in absent_sets() {
                            let s = file_scen(&format!("absent-{}-{}-{}-{}", al, n, d, bl), Content::Gen { len: n, seed: 100 + n }, d, &bflag, *prog);
                            jobs.extend(clamp_jobs(&w, &s, &faults, &|req| (1..req).collect(), true, &mut errs));
                        }
                    }
                }
            }
            let st = explore(&ctx.pool, jobs, j);
            rep.part("facility absent (copy_file_range / FICLONE / FIEMAP) x every clamp and EINTR on the fallback", st, serde_json::json!({"absent": absent_sets().iter().map(|a| a.0.clone()).collect::<Vec<_>>()}));
        }

        // (e) sparse layouts in 4 KiB units
        let mut jobs = vec![];
        let layouts: Vec<(Vec<bool>, u64)> = vec![(vec![true, false, true], 5), (vec![false, true], 0), (vec![true, false], 1), (vec![false, false, true], 4095)];
        for (li, (units, tail)) in layouts.iter().enumerate() {
            for d in drivers() {
                for (bl, bflag) in [("B4096", vec!["--block-size", "4096"]), ("B6000", vec!["--block-size", "6000"]), ("Bmax", vec!["--no-progress"])] {
                    let c = Content::Layout { unit: 4096, units: units.clone(), tail: *tail, seed: 7 + li as u64 };
                    let s = file_scen(&format!("layout{}-{}-{}-{}", li, d, bl, pname), c, d, &bflag, *prog);
                    let clamps = |req: u64| -> Vec<u64> { vec![1, 5, 4095, 4096, 5000, req.saturating_sub(1)] };
                    jobs.extend(clamp_jobs(&w, &s, &[], &clamps, false, &mut errs));
                    if *prog == Prog::Xcp {
                        for (_, faults) in absent_sets().into_iter().filter(|a| q == false || a.0.starts_with("cfr=ENOSYS") || a.0.starts_with("fiemap") || a.0.starts_with("seek")) {
                            jobs.extend(clamp_jobs(&w, &s, &faults, &clamps, true, &mut errs));
                        }
                    }
                    for c in [1000u64, 4096] {
                        let mut sp = RunSpec::base(Policy::P0);
                        sp.step_limit = STEP_LIMIT;
                        sp.faults.push(Fault { call: "DATA".into(), thread: None, nth: None, path_contains: None, action: Action::Clamp(c) });
                        jobs.push((Arc::new(s.clone()), sp, 0));
                    }
                }
            }
        }
        let st = explore(&ctx.pool, jobs, j);
        rep.part(&format!("[{}] data/hole layouts (4 KiB units): selected short counts, small-kernel runs, facility absent", pname), st, serde_json::json!({"layouts": layouts.iter().map(|l| format!("{:?}+{}", l.0, l.1)).collect::<Vec<_>>()}));
    }
    // the fallback under every schedule with at most d deviations: the block jobs of one file share two descriptors,
    // so a fallback that is correct for one thread need not be for two
    {
        let cj: Judge = &c06::judge;
        for (name, jobs) in sets::schedule_jobs_level(if q { 0 } else { 2 }, &|s| s).into_iter().filter(|(n, _)| n.starts_with("copy_file_range absent")) {
            let st = crate::explore::explore(&ctx.pool, jobs, cj);
            rep.part(&format!("schedule search: {}", name), st, serde_json::json!({"policies": ["P0", "P1"]}));
        }
    }
    rep.machinery_errors.extend(errs);
    rep.assumptions = vec![
        "a short count is produced by lowering the length register at system-call entry, so the kernel performs a real, legal shorter transfer".into(),
        "clone success is not part of this property (C15); here FICLONE is only ever unsupported".into(),
    ];
    rep
}
