//! C01 — exit 0 implies every copied regular file is byte-identical to its source

use super::*;
use crate::explore::Judge;
use crate::scen::{Content, Entry, Kind};

pub fn judge(w: &Worker, scen: &Scenario, ex: &Exec) -> Judgement {
    let exp = model::expect(scen);
    let v = judge_exit0_tree(w, scen, ex, &exp, Level::Content);
    simple_judge(v, ex, exit0(ex) && exp.nfiles > 0)
}

fn prior(kind: usize, len: u64) -> Option<Content> {
    match kind {
        0 => None,
        1 => Some(Content::Gen { len: len / 2, seed: 900 }),
        2 => Some(Content::Gen { len: len * 2 + 5, seed: 901 }),
        _ => Some(Content::Gen { len, seed: 902 }),
    }
}

pub fn dense(_quick: bool) -> Vec<Scenario> {
    let mut v = vec![];
    let bs: Vec<u64> = vec![1, 2, 3, 7, 4096];
    for &b in &bs {
        let mut sizes: Vec<u64> = vec![0, 1, b.saturating_sub(1), b, b + 1, 2 * b - 1, 2 * b, 2 * b + 1, 3 * b + 1];
        sizes.sort();
        sizes.dedup();
        for &n in &sizes {
            for pk in 0..4 {
                for d in drivers() {
                    for w in [1u32, 2, 3] {
                        for rl in ["auto", "never"] {
                            for prog in [false, true] {
                                let mut tree = vec![Entry::new("f", Kind::File(Content::Gen { len: n, seed: n + b }))];
                                if let Some(c) = prior(pk, n) {
                                    tree.push(Entry::new("g", Kind::File(c)).mode(0o600));
                                }
                                let ws = w.to_string();
                                let bstr = b.to_string();
                                let mut args = vec!["--driver", d, "-w", &ws, "--reflink", rl];
                                if prog {
                                    args.push("--no-progress");
                                } else {
                                    args.extend_from_slice(&["--block-size", &bstr]);
                                }
                                args.extend_from_slice(&["f", "g"]);
                                v.push(Scenario::new(&format!("dense-B{}-n{}-prior{}-{}-w{}-{}-{}", b, n, pk, d, w, rl, if prog { "noprog" } else { "bs" }), tree, &args));
                            }
                        }
                    }
                }
            }
        }
    }
    v
}

pub fn all_layouts(maxlen: usize) -> Vec<Vec<bool>> {
    let mut v = vec![];
    for l in 1..=maxlen {
        for m in 0..(1u32 << l) {
            v.push((0..l).map(|i| (m >> i) & 1 == 1).collect());
        }
    }
    v
}

pub fn layouts(quick: bool, unit: u64, maxlen: usize) -> Vec<Scenario> {
    let mut v = vec![];
    let bsz: Vec<(&str, Vec<&str>)> = vec![("4096", vec!["--block-size", "4096"]), ("6000", vec!["--block-size", "6000"]), ("8192", vec!["--block-size", "8192"]), ("1MiB", vec!["--block-size", "1MB"]), ("MAX", vec!["--no-progress"])];
    for (li, units) in all_layouts(maxlen).into_iter().enumerate() {
        for tail in [0u64, 1, 4095] {
            for (bn, bflag) in &bsz {
                let _ = quick;
                for d in drivers() {
                    for pk in [0, 2] {
                        let c = Content::Layout { unit, units: units.clone(), tail, seed: li as u64 };
                        let len = c.len();
                        let mut tree = vec![Entry::new("f", Kind::File(c))];
                        if pk == 2 {
                            tree.push(Entry::new("g", Kind::File(Content::Gen { len: len + 4096, seed: 77 })));
                        }
                        let mut args = vec!["--driver", d, "-w", "2"];
                        args.extend_from_slice(bflag);
                        args.extend_from_slice(&["f", "g"]);
                        let name: String = units.iter().map(|&b| if b { 'D' } else { 'H' }).collect();
                        v.push(Scenario::new(&format!("layout-{}+{}-u{}-B{}-{}-prior{}", name, tail, unit, bn, d, pk), tree, &args));
                    }
                }
            }
        }
    }
    v
}

pub fn trees() -> Vec<Scenario> {
    let mut v = vec![];
    for d in drivers() {
        for w in ["1", "2", "4"] {
            for b in ["1", "5", "4096"] {
                let tree = vec![
                    Entry::dir("src"),
                    Entry::gen("src/a", 11, 1),
                    Entry::new("src/s", Kind::File(Content::Layout { unit: 4096, units: vec![true, false, true], tail: 3, seed: 2 })),
                    Entry::dir("src/d"),
                    Entry::gen("src/d/e", 4097, 3),
                    Entry::file("src/d/z", ""),
                    Entry::dir("dst"),
                    Entry::gen("dst/a", 30, 4),
                ];
                v.push(Scenario::new(&format!("tree-{}-w{}-B{}", d, w, b), tree, &["-r", "-T", "--driver", d, "-w", w, "--block-size", b, "src", "dst"]));
            }
        }
    }
    v
}

pub fn run(ctx: &Ctx) -> Report {
    let mut rep = Report::new(
        "model_checking",
        "bounded-exhaustive scenario enumeration: block sizes {1,2,3,7,4096} x sizes {0,1,B-1,B,B+1,2B-1,2B,2B+1,3B+1} x prior destination {absent, shorter, longer, same length} x drivers x workers x reflink {auto,never} x {--block-size B, --no-progress}; every {Data,Hole} string up to a length bound in 4 KiB units x tails {0,1,4095} x block sizes {4096,6000,8192,1MiB,MAX}; small trees; each scenario executed by the real binary under the supervisor's deterministic base schedules P0 and P1 and compared with the reference model; non-trivial = exited 0 and copied at least one regular file, counted per distinct trace",
    );
    let j: Judge = &judge;
    let q = ctx.quick();
    let st = scen_batch(ctx, dense(q), &[Policy::P0, Policy::P1], j);
    rep.part("dense sizes x block sizes x prior destinations", st, serde_json::json!({}));
    let st = scen_batch(ctx, layouts(q, 4096, if q { 5 } else { 7 }), &[Policy::P0], j);
    rep.part("data/hole layouts, 4 KiB units", st, serde_json::json!({"max_units": if q { 5 } else { 7 }}));
    let st = scen_batch(ctx, trees(), &[Policy::P0, Policy::P1], j);
    rep.part("small trees", st, serde_json::json!({}));
    let st = scen_batch(ctx, c11::far_scenarios(), &[Policy::P1], j);
    rep.part("data islands straddling the 2 GiB and 4 GiB offsets", st, serde_json::json!({}));
    if !q {
        let st = scen_batch(ctx, layouts(false, 65536, 5), &[Policy::P1], j);
        rep.part("data/hole layouts, 64 KiB units", st, serde_json::json!({"max_units": 5}));
        // one real request above the kernel's per-call limit (2 GiB - 4 KiB)
        let mut big = vec![];
        for d in drivers() {
            let tree = vec![Entry::new("f", Kind::File(Content::Layout { unit: 1 << 30, units: vec![true, true], tail: 12345, seed: 5 }))];
            big.push(Scenario::new(&format!("bigger-than-one-kernel-request-{}", d), tree, &["--driver", d, "--no-progress", "f", "g"]));
        }
        let save = ctx.pool.n;
        let _ = save;
        let st = scen_batch(ctx, big, &[Policy::P0], j);
        rep.part("one file larger than a single copy_file_range request (2 GiB + 12345 bytes, --no-progress)", st, serde_json::json!({}));
    }
    rep.assumptions = vec!["ext4 sandbox (FIEMAP, SEEK_HOLE available); deterministic non-zero content so that a hole copied as data or data left as zeros shows up as a byte difference".into()];
    rep
}
