//! C08 — --no-clobber never alters anything that already exists in the destination

use super::*;
use crate::explore::{explore, Judge};
use crate::scen::{Entry, Kind};
use std::sync::Arc;

pub fn judge(_w: &Worker, scen: &Scenario, ex: &Exec) -> Judgement {
    let exp = model::expect(scen);
    let mut v = model::untouched(&exp, &ex.before, &ex.snap);
    if let Some(why) = &exp.must_fail {
        if exit0(ex) {
            v.push(format!("exit 0 although {}", why));
        }
    }
    v.truncate(6);
    simple_judge(v, ex, exp.must_fail.is_some())
}

fn src_tree() -> Vec<Entry> {
    vec![
        Entry::dir("src"),
        Entry::file("src/f1", "file one").mtime(1_300_000_000, 1),
        Entry::file("src/f2", "file two!").mtime(1_300_000_001, 2),
        Entry::dir("src/d"),
        Entry::file("src/d/g", "nested g").mtime(1_300_000_002, 3),
        Entry::link("src/l", "f1"),
        Entry::new("src/p", Kind::Fifo),
    ]
}

pub fn scenarios(quick: bool) -> Vec<Scenario> {
    let mut v = vec![];
    // with -n xcp refuses a directory that maps onto an existing directory (the property leaves that
    // open), so collisions at every position in walk order are produced with several source arguments
    let names = ["f1", "f2", "d", "l", "p"];
    let kinds = ["file", "dir", "fifo", "link-to-file", "dangling-link"];
    for d in drivers() {
        for w in if quick { vec![2u32] } else { vec![1, 2, 3] } {
            let ws = w.to_string();
            for order in ["fwd", "rev"] {
                let mut srcs: Vec<String> = names.iter().map(|n| format!("src/{}", n)).collect();
                if order == "rev" {
                    srcs.reverse();
                }
                for at in names {
                    for k in kinds {
                        if quick && order == "rev" && !(k == "file" || k == "dangling-link") {
                            continue; // quick: the reversed argument order only for the two kinds a copy can write through
                        }
                        let mut tree = src_tree();
                        tree.push(Entry::dir("dst"));
                        tree.push(Entry::file("dst/bystander", "keep me").mtime(1_200_000_000, 5).mode(0o600));
                        tree.push(Entry::file("dst/target-of-link", "linked content").mtime(1_200_000_001, 6));
                        let p = format!("dst/{}", at);
                        match k {
                            "file" => tree.push(Entry::file(&p, "EXISTING").mtime(1_200_000_002, 7).mode(0o604)),
                            "dir" => {
                                tree.push(Entry::dir(&p));
                                tree.push(Entry::file(&format!("{}/other", p), "other").mtime(1_200_000_003, 8));
                            }
                            "fifo" => tree.push(Entry::new(&p, Kind::Fifo).mode(0o622)),
                            "link-to-file" => tree.push(Entry::link(&p, "{R}/dst/target-of-link")),
                            _ => tree.push(Entry::link(&p, "{R}/dst/not-there")),
                        };
                        let mut args: Vec<&str> = vec!["-r", "-n", "--driver", d, "-w", &ws, "--block-size", "4"];
                        for s in &srcs {
                            args.push(s);
                        }
                        args.push("dst");
                        v.push(Scenario::new(&format!("noclobber-{}-at-{}-{}-{}-w{}", k, at, order, d, w), tree, &args));
                    }
                }
                // no collision at all: must succeed and leave bystanders alone
                let mut tree = src_tree();
                tree.push(Entry::dir("dst"));
                tree.push(Entry::file("dst/bystander", "keep me").mtime(1_200_000_000, 5));
                let mut args: Vec<&str> = vec!["-r", "-n", "--driver", d, "-w", &ws, "--block-size", "4"];
                for s in &srcs {
                    args.push(s);
                }
                args.push("dst");
                v.push(Scenario::new(&format!("noclobber-nocollision-{}-{}-w{}", order, d, w), tree, &args));
            }
            // a collision below a directory that is itself new at the destination cannot pre-exist; the
            // remaining shape is a tree copied to a fresh name next to bystanders
            let mut tree = src_tree();
            tree.push(Entry::dir("dst"));
            tree.push(Entry::file("dst/bystander", "keep me").mtime(1_200_000_000, 5));
            v.push(Scenario::new(&format!("noclobber-tree-into-dir-{}-w{}", d, w), tree, &["-r", "-n", "--driver", d, "-w", &ws, "src", "dst"]));
            // single-file forms
            v.push(Scenario::new(&format!("noclobber-single-{}-w{}", d, w), vec![Entry::file("a", "new"), Entry::file("b", "EXISTING").mtime(1_200_000_000, 1)], &["-n", "--driver", d, "-w", &ws, "a", "b"]));
            v.push(Scenario::new(&format!("noclobber-single-into-dir-{}-w{}", d, w), vec![Entry::file("a", "new"), Entry::dir("t"), Entry::file("t/a", "EXISTING").mtime(1_200_000_000, 1)], &["-n", "--driver", d, "-w", &ws, "a", "t"]));
            v.push(Scenario::new(&format!("noclobber-fifo-onto-file-{}-w{}", d, w), vec![Entry::new("p", Kind::Fifo), Entry::file("q", "EXISTING").mtime(1_200_000_000, 1)], &["-n", "--driver", d, "-w", &ws, "p", "q"]));
            v.push(Scenario::new(&format!("noclobber-link-onto-link-{}-w{}", d, w), vec![Entry::file("t", "x"), Entry::link("l", "t"), Entry::link("m", "nowhere")], &["-n", "--driver", d, "-w", &ws, "l", "m"]));
        }
    }
    v
}

/// the destination *argument itself* already exists as each kind (including links that dangle, with and without a
/// parent for what they name), for each kind of source, with and without -T
pub fn dest_itself_scenarios() -> Vec<Scenario> {
    let mut v = vec![];
    let srcs: Vec<(&str, Vec<Entry>, Vec<&str>)> = vec![
        ("file", vec![Entry::file("a", "new content").mtime(1_300_000_000, 1)], vec![]),
        ("empty-file", vec![Entry::file("a", "")], vec![]),
        ("link", vec![Entry::file("t0", "target of a"), Entry::link("a", "t0")], vec![]),
        ("link-L", vec![Entry::file("t0", "target of a"), Entry::link("a", "t0")], vec!["-L"]),
        ("fifo", vec![Entry::new("a", Kind::Fifo)], vec![]),
        ("dir", vec![Entry::dir("a"), Entry::file("a/x", "inside a")], vec!["-r"]),
    ];
    let dests = ["file", "dir", "fifo", "link-to-file", "link-to-dir", "dangling", "dangling-no-parent", "dangling-relative"];
    for d in drivers() {
        for (sn, stree, sflags) in &srcs {
            for dk in dests {
                for t in [false, true] {
                    let mut tree = stree.clone();
                    tree.push(Entry::dir("outside"));
                    tree.push(Entry::file("outside/keep", "bystander").mtime(1_200_000_000, 5));
                    match dk {
                        "file" => tree.push(Entry::file("b", "EXISTING").mtime(1_200_000_001, 6).mode(0o604)),
                        "dir" => {
                            tree.push(Entry::dir("b"));
                            tree.push(Entry::file("b/a", "EXISTING in b").mtime(1_200_000_002, 7));
                        }
                        "fifo" => tree.push(Entry::new("b", Kind::Fifo).mode(0o622)),
                        "link-to-file" => tree.push(Entry::link("b", "outside/keep")),
                        "link-to-dir" => {
                            tree.push(Entry::file("outside/a", "EXISTING behind the link").mtime(1_200_000_003, 8));
                            tree.push(Entry::link("b", "outside"));
                        }
                        "dangling" => tree.push(Entry::link("b", "{R}/outside/victim")),
                        "dangling-relative" => tree.push(Entry::link("b", "outside/victim")),
                        _ => tree.push(Entry::link("b", "{R}/nowhere/victim")),
                    }
                    let mut args: Vec<&str> = vec!["-n", "--driver", d, "-w", "2"];
                    args.extend_from_slice(sflags);
                    if t {
                        args.push("-T");
                    }
                    args.extend_from_slice(&["a", "b"]);
                    v.push(Scenario::new(&format!("noclobber-dest-itself-{}-onto-{}{}-{}", sn, dk, if t { "-T" } else { "" }, d), tree, &args));
                }
            }
        }
    }
    v
}

/// like `judge`, and nothing may appear outside the destination either (a file created through a link that dangled)
pub fn judge_dest_itself(w: &Worker, scen: &Scenario, ex: &Exec) -> Judgement {
    let mut j = judge(w, scen, ex);
    for k in ex.snap.keys() {
        if (k.starts_with("outside/") || k.starts_with("nowhere")) && !ex.before.contains_key(k) {
            let exp = model::expect(scen);
            if !exp.tree.contains_key(k) {
                j.violations.push(format!("{} appeared although -n was given and the destination name existed", k));
            }
        }
    }
    j
}

pub fn run(ctx: &Ctx) -> Report {
    let mut rep = Report::new(
        "model_checking",
        "source tree {2 files, directory with a file, link, FIFO} copied with -n onto destinations in which one entry (each position in turn) already exists as {file, directory, FIFO, link to a file, dangling link}, plus bystanders; both drivers; all executions with <= d scheduling deviations from P0 and P1; oracle: every pre-existing destination entry is identical before/after (content, kind, mode, owner, mtime, ctime, inode, xattrs) and the exit status is non-zero when a file, link or special node maps onto an existing entry; non-trivial = a collision exists, counted per distinct trace",
    );
    let j: Judge = &judge;
    let d = if ctx.quick() { 1 } else { 2 };
    let mut jobs = vec![];
    for s in scenarios(ctx.quick()) {
        // quick: the schedule search goes one deviation deep for the kinds a copy could write through or into
        // (file, dangling link, directory); FIFO and link-to-file collisions run under the two base schedules
        // every collision kind under every schedule with <= 1 deviation; thorough goes to 2 deviations for two
        // workers, forward argument order and the kinds a copy could write through or into (file, dangling link,
        // directory): d <= 2 on all 300 scenarios is several million executions
        let two = !ctx.quick() && s.name.ends_with("-w2") && s.name.contains("-fwd-") && (s.name.contains("noclobber-file-at") || s.name.contains("noclobber-dangling-link-at") || s.name.contains("noclobber-dir-at"));
        let s = Arc::new(s);
        for b in base_specs() {
            jobs.push((s.clone(), b, if two { d } else { 1 }));
        }
    }
    let n = jobs.len() / 2;
    let st = explore(&ctx.pool, jobs, j);
    rep.part("collisions at every position x kind", st, serde_json::json!({"scenarios": n, "d": d}));
    // the collision report must get through even when thousands of updates are queued in front of it and the
    // consumer of the status channel does not run
    {
        let mut jobs = vec![];
        for d in if ctx.quick() { vec!["parfile"] } else { vec!["parfile", "parblock"] } {
            let mut tree = vec![Entry::dir("src"), Entry::dir("src/big"), Entry::file("src/zz", "new zz"), Entry::dir("dst"), Entry::file("dst/zz", "EXISTING").mtime(1_200_000_000, 1).mode(0o604)];
            for i in 0..4200 {
                tree.push(Entry::file(&format!("src/big/f{:04}", i), "x"));
            }
            let s = Arc::new(Scenario::new(&format!("noclobber-after-4200-files-{}", d), tree, &["-r", "-n", "--driver", d, "-w", "2", "src/big", "src/zz", "dst"]));
            // main ("0") has the lowest priority: it only runs when everything else is blocked
            let order: Vec<String> = if d == "parfile" { vec!["0.1.1".into(), "0.1.2".into(), "0.1.3".into(), "0.1".into(), "0".into()] } else { vec!["0.1.2".into(), "0.1.1".into(), "0.1.1.*".into(), "0.1".into(), "0".into()] };
            let mut sp = RunSpec::base(Policy::Prio(order));
            sp.step_limit = 20_000_000;
            jobs.push((s, sp, 0usize));
        }
        let st = explore(&ctx.pool, jobs, j);
        rep.part("a collision after 4200 files while the main thread (consumer of the status channel) is starved", st, serde_json::json!({"files": 4200}));
    }
    // the destination argument itself exists, as each kind
    {
        crate::explore::SNAP_BEFORE.store(true, std::sync::atomic::Ordering::Relaxed);
        let sc = dest_itself_scenarios();
        let n = sc.len();
        let jd: Judge = &judge_dest_itself;
        let st = scen_batch(ctx, sc, &[Policy::P0, Policy::P1], jd);
        rep.part("the destination argument itself exists: source kinds x {file, dir, fifo, link to file, link to dir, dangling link (absolute, relative, no parent)} x {-, -T}", st, serde_json::json!({"scenarios": n}));
    }
    // -n combined with every other option: none of them may switch the protection off
    {
        let flags: Vec<Vec<&str>> = vec![vec!["--backup", "numbered"], vec!["--backup", "auto"], vec!["--no-perms"], vec!["--no-timestamps"], vec!["--ownership"], vec!["--fsync"], vec!["--reflink", "never"], vec!["--reflink", "always"], vec!["--no-progress"], vec!["--block-size", "0"], vec!["--block-size", "1"], vec!["--gitignore"], vec!["-L"], vec!["-w", "1"], vec!["-w", "0"], vec!["-vv"], vec!["-T"], vec!["-g"]];
        let mut sc = vec![];
        for d in drivers() {
            for f in &flags {
                let mut tree = src_tree();
                tree.push(Entry::dir("dst"));
                tree.push(Entry::file("dst/bystander", "keep me").mtime(1_200_000_000, 5).mode(0o600));
                tree.push(Entry::file("dst/f2", "EXISTING").mtime(1_200_000_002, 7).mode(0o604));
                tree.push(Entry::file("dst/f2.~1~", "a backup that must stay").mtime(1_100_000_000, 1));
                let mut args: Vec<&str> = vec!["-r", "-n", "--driver", d];
                args.extend(f.iter());
                if f == &vec!["-T"] {
                    // -T: a single source onto the existing file itself
                    args.extend_from_slice(&["src/f2", "dst/f2"]);
                } else {
                    args.extend_from_slice(&["src/f1", "src/f2", "src/d", "dst"]);
                }
                sc.push(Scenario::new(&format!("noclobber-with-[{}]-{}", f.join(" "), d), tree, &args));
            }
        }
        let st = scen_batch(ctx, sc, &[Policy::P0, Policy::P1], j);
        rep.part("-n combined with every other option", st, serde_json::json!({"options": flags.len()}));
    }
    // the existence probe itself may fail: an error must not be read as "absent"
    {
        let w = Worker::new(146, &ctx.pool.bins);
        let mut jobs = vec![];
        let mut errs = vec![];
        let mut nsites = 0;
        for s in scenarios(true).into_iter().filter(|s| s.name.contains("-fwd-") && (s.name.contains("noclobber-file-at") || s.name.contains("noclobber-dangling-link-at") || s.name.contains("noclobber-dir-at-d"))) {
            let sa = Arc::new(s.clone());
            let base = RunSpec::base(Policy::P0);
            let rec = match w.run(&s, &base) {
                Ok(r) => r,
                Err(e) => {
                    errs.push(format!("recording run of {}: {}", s.name, e));
                    continue;
                }
            };
            let mut cnt: std::collections::BTreeMap<(usize, String), usize> = std::collections::BTreeMap::new();
            for e in &rec.events {
                let c = cnt.entry((e.th, e.name.clone())).or_insert(0);
                *c += 1;
                if matches!(e.name.as_str(), "statx" | "newfstatat" | "stat" | "lstat" | "access" | "faccessat" | "faccessat2") && e.rel.as_deref().map(|r| r.starts_with("dst")).unwrap_or(false) {
                    nsites += 1;
                    for en in [libc::EIO, libc::EACCES, libc::ENOMEM] {
                        let mut sp = base.clone();
                        sp.faults.push(crate::sup::Fault { call: e.name.clone(), thread: Some(rec.threads[e.th].clone()), nth: Some(*c), path_contains: None, action: crate::sup::Action::Errno(en) });
                        jobs.push((sa.clone(), sp, 0usize));
                    }
                }
            }
        }
        let st = explore(&ctx.pool, jobs, j);
        rep.part("every stat of a destination path failing with EIO / EACCES / ENOMEM", st, serde_json::json!({"sites": nsites}));
        rep.machinery_errors.extend(errs);
    }
    rep.assumptions = vec!["a source directory onto an existing directory may be refused or merged (left open by the property)".into()];
    rep
}
