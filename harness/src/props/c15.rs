//! C15 — reflink modes keep their contract

use super::*;
use crate::explore::{explore, Judge};
use crate::scen::Entry;
use crate::sup::{Action, Fault};
use std::sync::Arc;

fn unsupported(errno: i64) -> bool {
    [libc::EOPNOTSUPP as i64, libc::EINVAL as i64, libc::EXDEV as i64].contains(&errno)
}

pub fn judge(w: &Worker, scen: &Scenario, ex: &Exec) -> Judgement {
    let exp = model::expect(scen);
    let mode = exp.opts.reflink.clone();
    let mut v = vec![];
    // FICLONE calls in trace order: (destination, answer)
    let clones: Vec<(String, i64, usize)> = ex.res.events.iter().enumerate().filter(|(_, e)| e.name == "ioctl:FICLONE").map(|(i, e)| (e.rel2.clone().unwrap_or_default(), e.ret, i)).collect();
    let data_moves = |dest: &str| -> Vec<usize> { ex.res.events.iter().enumerate().filter(|(_, e)| e.is_data_move() && e.write_target().map(|t| t.1 == dest).unwrap_or(false)).map(|(i, _)| i).collect() };
    let files = c18::copied_files(&exp);
    match mode.as_str() {
        "never" => {
            if !clones.is_empty() {
                v.push(format!("--reflink=never but a clone request was issued for {}", clones[0].0));
            }
            v.extend(judge_exit0_tree(w, scen, ex, &exp, Level::Content));
            if !exit0(ex) && !ex.res.outcome.is_hang() {
                v.push(format!("--reflink=never: valid copy ends with {}", ex.res.outcome.short()));
            }
        }
        "always" => {
            let all_ok = files.iter().all(|f| clones.iter().any(|(d, r, _)| d == f && *r == 0));
            if exit0(ex) {
                if !all_ok {
                    v.push("--reflink=always exits 0 although not every regular file was produced by a successful clone".into());
                }
                for f in &files {
                    if !data_moves(f).is_empty() {
                        v.push(format!("--reflink=always: data was copied into {} by ordinary calls", f));
                    }
                }
                v.extend(judge_exit0_tree(w, scen, ex, &exp, Level::Content));
            } else if all_ok && !files.is_empty() && clones.iter().all(|c| c.1 == 0) && !ex.res.outcome.is_hang() {
                v.push(format!("--reflink=always: every clone succeeded but the run ends with {}", ex.res.outcome.short()));
            }
            if clones.iter().any(|c| c.1 != 0) && exit0(ex) {
                v.push("--reflink=always exits 0 although a clone request failed".into());
            }
        }
        _ => {
            // auto
            for f in &files {
                let dm = data_moves(f);
                let cl: Vec<&(String, i64, usize)> = clones.iter().filter(|c| &c.0 == f).collect();
                if exit0(ex) && cl.is_empty() {
                    v.push(format!("--reflink=auto: no clone attempt for {}", f));
                }
                if let (Some(c), Some(first)) = (cl.first(), dm.first()) {
                    if *first < c.2 {
                        v.push(format!("--reflink=auto: data written to {} before the clone attempt", f));
                    }
                    if c.1 == 0 {
                        v.push(format!("--reflink=auto: clone of {} succeeded but data was copied as well", f));
                    }
                }
            }
            v.extend(judge_exit0_tree(w, scen, ex, &exp, Level::Content));
            let hard = clones.iter().any(|c| c.1 != 0 && !unsupported(-c.1));
            if !exit0(ex) && !hard && !ex.res.outcome.is_hang() {
                v.push(format!("--reflink=auto: cloning merely unsupported/successful but the run ends with {}", ex.res.outcome.short()));
            }
        }
    }
    v.truncate(8);
    simple_judge(v, ex, !clones.is_empty() || mode == "never")
}

pub fn jobs(quick: bool) -> Vec<(Arc<Scenario>, RunSpec, usize)> {
    use libc::*;
    let answers: Vec<Option<Action>> = vec![None, Some(Action::Errno(EOPNOTSUPP)), Some(Action::Errno(EINVAL)), Some(Action::Errno(EXDEV)), Some(Action::Errno(EIO)), Some(Action::Errno(EPERM)), Some(Action::EmulateOk)];
    let trees: Vec<(&str, Vec<Entry>)> = vec![
        ("one", vec![Entry::dir("src"), Entry::file("src/a", "0123456789")]),
        ("two", vec![Entry::dir("src"), Entry::file("src/a", "0123456789"), Entry::file("src/b", "abcdef")]),
        ("two-one-empty", vec![Entry::dir("src"), Entry::file("src/a", "0123456789"), Entry::file("src/e", "")]),
        ("sparse", vec![Entry::dir("src"), Entry::new("src/s", crate::scen::Kind::File(crate::scen::Content::Layout { unit: 4096, units: vec![true, false, true], tail: 0, seed: 6 }))]),
        ("sparse-and-dense", vec![Entry::dir("src"), Entry::new("src/s", crate::scen::Kind::File(crate::scen::Content::Layout { unit: 4096, units: vec![false, true], tail: 0, seed: 7 })), Entry::file("src/a", "0123456789")]),
        ("overwrite", vec![Entry::dir("src"), Entry::file("src/a", "0123456789"), Entry::dir("dst"), Entry::file("dst/a", "previous longer content")]),
    ];
    let mut out = vec![];
    for d in drivers() {
        for mode in ["never", "auto", "always"] {
            for (tn, tree) in &trees {
                let args: Vec<&str> = if *tn == "overwrite" { vec!["-r", "-T", "--reflink", mode, "--driver", d, "-w", "2", "--block-size", "4096", "src", "dst"] } else { vec!["-r", "--reflink", mode, "--driver", d, "-w", "2", "--block-size", "4096", "src", "dst"] };
                let s = Arc::new(Scenario::new(&format!("reflink-{}-{}-{}", mode, tn, d), tree.clone(), &args));
                let nfiles = tree.iter().filter(|e| e.path.starts_with("src/")).count();
                for a1 in &answers {
                    let seconds: Vec<&Option<Action>> = if nfiles > 1 { answers.iter().collect() } else { vec![&None] };
                    for a2 in seconds {
                        for pol in if quick { vec![Policy::P0] } else { vec![Policy::P0, Policy::P1] } {
                            let mut sp = RunSpec::base(pol);
                            if let Some(a) = a1 {
                                sp.faults.push(Fault { call: "ioctl:FICLONE".into(), thread: None, nth: Some(1), path_contains: None, action: a.clone() });
                            }
                            if let Some(a) = a2 {
                                sp.faults.push(Fault { call: "ioctl:FICLONE".into(), thread: None, nth: Some(2), path_contains: None, action: a.clone() });
                            }
                            out.push((s.clone(), sp, if quick { 0 } else { 1 }));
                        }
                    }
                }
            }
        }
    }
    // verbose runs, with a healthy and with a failing log stream: logging must not influence the outcome
    for d in drivers() {
        for mode in ["never", "auto", "always"] {
            let tree = vec![Entry::dir("src"), Entry::file("src/a", "0123456789"), Entry::file("src/b", "abcdef")];
            let s = Arc::new(Scenario::new(&format!("reflink-{}-verbose-{}", mode, d), tree, &["-vv", "-r", "--reflink", mode, "--driver", d, "-w", "2", "--block-size", "4096", "src", "dst"]));
            for a1 in [None, Some(Action::Errno(EOPNOTSUPP)), Some(Action::Errno(EINVAL)), Some(Action::Errno(EXDEV)), Some(Action::EmulateOk)] {
                for log_fails in [None, Some(ENOSPC), Some(EPIPE)] {
                    let mut sp = RunSpec::base(Policy::P0);
                    if let Some(a) = &a1 {
                        sp.faults.push(Fault { call: "ioctl:FICLONE".into(), thread: None, nth: None, path_contains: None, action: a.clone() });
                    }
                    if let Some(e) = log_fails {
                        sp.faults.push(Fault { call: "write:stdio".into(), thread: None, nth: None, path_contains: None, action: Action::Errno(e) });
                    }
                    out.push((s.clone(), sp, 0));
                }
            }
        }
    }
    out
}

pub fn run(ctx: &Ctx) -> Report {
    let mut rep = Report::new(
        "fault_enumeration",
        "trees of one or two files (one empty, one overwriting) x both drivers x reflink {never, auto, always} x every vector of answers to the FICLONE calls drawn from {real file system (unsupported here), EOPNOTSUPP, EINVAL, EXDEV, EIO, EPERM, success emulated by the supervisor}; oracle on the system-call trace: never => no clone request; always => exit 0 iff every file was produced by a successful clone, and then no data-moving call on it; auto => the clone attempt precedes any data write, unsupported => byte-exact copy and exit 0, success => no copy calls; non-trivial = a clone request was answered (or never-mode), per distinct trace",
    );
    let j: Judge = &judge;
    let jb = jobs(ctx.quick());
    let n = jb.len();
    let st = explore(&ctx.pool, jb, j);
    rep.part("answer vectors x modes x trees", st, serde_json::json!({"base_jobs": n, "answers": 7}));
    rep.assumptions = vec!["no reflink-capable file system exists in the sandbox: clone success is emulated by the supervisor (it makes the destination's bytes equal to the source's and answers 0)".into()];
    rep
}
