//! C03 — sources and bystander files are never modified, even by self-copies or kills

use super::*;
use crate::explore::{explore, Judge};
use crate::scen::{Entry, Kind};
use std::sync::Arc;

/// alias scenarios: the destination designates the source itself. Everything must stay as it was.
pub fn judge_alias(_w: &Worker, _scen: &Scenario, ex: &Exec) -> Judgement {
    let mut v = vec![];
    for (k, b) in &ex.before {
        match ex.snap.get(k) {
            None => v.push(format!("{} disappeared", k)),
            Some(a) => {
                if b.kind == 'd' {
                    if a.kind != 'd' || (a.mode, a.uid, a.gid) != (b.mode, b.uid, b.gid) {
                        v.push(format!("directory {} changed", k));
                    }
                } else if let Some(d) = b.diff_all(a) {
                    v.push(format!("{} changed: {}", k, d));
                }
            }
        }
    }
    for k in ex.snap.keys() {
        if !ex.before.contains_key(k) {
            v.push(format!("{} appeared although the copy had to be refused or be a no-op", k));
        }
    }
    v.truncate(6);
    simple_judge(v, ex, true)
}

/// general rule: whatever the outcome, entries that are not mapped targets are untouched
pub fn judge(w: &Worker, scen: &Scenario, ex: &Exec) -> Judgement {
    if scen.name.starts_with("alias") {
        return judge_alias(w, scen, ex);
    }
    let exp = model::expect(scen);
    let mut v = model::untouched(&exp, &ex.before, &ex.snap);
    v.truncate(6);
    simple_judge(v, ex, true)
}

pub fn alias_scenarios() -> Vec<Scenario> {
    let mut v = vec![];
    for d in drivers() {
        for bk in ["none", "numbered"] {
            let mk = |name: &str, tree: Vec<Entry>, args: &[&str], cwd: &str| {
                let mut a = vec!["--driver", d, "--backup", bk, "-w", "2"];
                a.extend_from_slice(args);
                let mut s = Scenario::new(&format!("alias-{}-{}-{}", name, d, bk), tree, &a);
                s.cwd = cwd.to_string();
                s
            };
            let f = || Entry::file("f", "precious source bytes").mode(0o640).mtime(1_300_000_000, 42);
            v.push(mk("dot-slash", vec![f()], &["f", "./f"], ""));
            v.push(mk("dir-dotdot", vec![f(), Entry::dir("d")], &["f", "d/../f"], ""));
            v.push(mk("own-dir", vec![Entry::dir("d"), Entry::file("d/f", "precious source bytes").mtime(1_300_000_000, 42)], &["d/f", "d"], ""));
            v.push(mk("cwd", vec![f()], &["f", "."], ""));
            v.push(mk("abs-vs-rel", vec![f()], &["f", "{R}/f"], ""));
            v.push(mk("symlink", vec![f(), Entry::link("lnk", "f")], &["f", "lnk"], ""));
            v.push(mk("hardlink", vec![f(), Entry::new("h", Kind::Hardlink("f".into()))], &["f", "h"], ""));
            v.push(mk("symlinked-dir", vec![Entry::dir("d"), Entry::file("d/f", "precious source bytes"), Entry::link("dl", "d")], &["d/f", "dl"], ""));
            v.push(mk("recursive-onto-parent", vec![Entry::dir("p"), Entry::dir("p/d"), Entry::file("p/d/f", "precious"), Entry::file("p/d/g", "also")], &["-r", "p/d", "p"], ""));
            v.push(mk("recursive-via-symlinked-dir", vec![Entry::dir("p"), Entry::dir("p/d"), Entry::file("p/d/f", "precious"), Entry::link("q", "p")], &["-r", "p/d", "q"], ""));
            v.push(mk("recursive-T-dotdot", vec![Entry::dir("d"), Entry::file("d/f", "precious"), Entry::dir("e")], &["-r", "-T", "d", "e/../d"], ""));
            v.push(mk("fifo-dot-slash", vec![Entry::new("p", Kind::Fifo)], &["p", "./p"], ""));
            v.push(mk("socket-own-dir", vec![Entry::dir("d"), Entry::new("d/s", Kind::Socket)], &["d/s", "d"], ""));
            v.push(mk("link-dot-slash", vec![f(), Entry::link("l", "f")], &["l", "./l"], ""));
            v.push(mk("from-subdir", vec![Entry::dir("d"), Entry::file("d/f", "precious")], &["f", "../d/f"], "d"));
        }
    }
    v
}

/// two sources whose trees meet at one destination path: one holds a link to the other's file, the other the
/// file itself. Whatever the mapping does there (the properties leave it open), the source must stay intact.
pub fn cross_link_scenarios(quick: bool) -> Vec<Scenario> {
    let mut v = vec![];
    for d in drivers() {
        for w in if quick { vec!["2"] } else { vec!["1", "2", "3"] } {
            for order in [["v1/conf", "v2/conf"], ["v2/conf", "v1/conf"]] {
                let tree = vec![
                    Entry::dir("v1"),
                    Entry::dir("v1/conf"),
                    Entry::link("v1/conf/settings", "../../v2/conf/settings"),
                    Entry::file("v1/conf/other", "other file"),
                    Entry::dir("v2"),
                    Entry::dir("v2/conf"),
                    Entry::file("v2/conf/settings", "precious settings of v2").mode(0o640).mtime(1_300_000_000, 5),
                    Entry::link("v2/conf/other", "{R}/v1/conf/other"),
                    Entry::dir("dst"),
                ];
                v.push(Scenario::new(&format!("crosslink-{}-w{}-{}", d, w, order[0].replace('/', "_")), tree, &["-r", "--driver", d, "-w", w, order[0], order[1], "dst"]));
            }
        }
    }
    v
}

pub fn kill_scenarios() -> Vec<Scenario> {
    let mut v = vec![];
    for d in drivers() {
        let tree = vec![
            Entry::dir("src"),
            Entry::file("src/a", "new content of a").mode(0o640).mtime(1_300_000_000, 1),
            Entry::dir("src/d"),
            Entry::file("src/d/n", "nested").mtime(1_300_000_002, 3),
            Entry::link("src/l", "a"),
            Entry::dir("dst"),
            Entry::file("dst/a", "OLD CONTENT").mode(0o600).mtime(1_200_000_000, 7),
            Entry::file("dst/a.~1~", "older").mtime(1_100_000_000, 0),
            Entry::file("dst/keep", "bystander").mtime(1_200_000_002, 9).xattr("user.k", "v"),
            Entry::file("outside", "not involved").mtime(1_200_000_003, 9),
            Entry::link("outlink", "outside"),
        ];
        v.push(Scenario::new(&format!("kill-{}", d), tree, &["-r", "-T", "--backup", "numbered", "--driver", d, "-w", "2", "--block-size", "4", "src", "dst"]));
    }
    v
}

/// SIGKILL at every decision point of every execution with <= d deviations
pub fn kill_sweep(ctx: &Ctx, scens: &[Scenario], d: usize, judge: Judge) -> Stats {
    let pool = &ctx.pool;
    let mut jobs = vec![];
    for s in scens {
        let s = Arc::new(s.clone());
        for b in base_specs() {
            jobs.push((s.clone(), b, d));
        }
    }
    let accs = crate::explore::par_work(pool, jobs, Stats::default, |w, (scen, spec, budget): (Arc<Scenario>, RunSpec, usize), more, st: &mut Stats| {
        if pool.expired() {
            st.capped = true;
            return;
        }
        if let Some(ex) = crate::explore::run_one(w, &scen, &spec, judge, st) {
            if spec.kill_at.is_none() {
                let start = spec.devs.last().map(|d| d.0).unwrap_or(0);
                for k in start..ex.res.decisions.len() {
                    let mut sp = spec.clone();
                    sp.kill_at = Some(k);
                    more.push((scen.clone(), sp, 0));
                }
                if budget > 0 {
                    for c in crate::explore::children(&ex) {
                        more.push((scen.clone(), c, budget - 1));
                    }
                }
            }
        }
    });
    let mut total = Stats::default();
    for a in accs {
        total.merge(a);
    }
    total
}

pub fn run(ctx: &Ctx) -> Report {
    let mut rep = Report::new(
        "fault_enumeration",
        "alias relations between a source and its mapped destination (./f, d/../f, own directory, cwd, absolute spelling, symbolic link, hard link, symlinked directory, recursive variants, special files) x drivers x backup modes, each with <= 1 scheduling deviation; SIGKILL at every decision point of the executions of an overwrite-with-backup copy; every single injected failure of C04's site list; oracle: every entry that is not a mapped destination is identical before/after in content hash, kind, mode, owner, size, mtime, ctime, nlink, inode and xattrs (aliases: the whole sandbox is); non-trivial = distinct trace",
    );
    let j: Judge = &judge;
    let mut jobs = vec![];
    for s in alias_scenarios() {
        let s = Arc::new(s);
        for b in base_specs() {
            jobs.push((s.clone(), b, if ctx.quick() { 0 } else { 1 }));
        }
    }
    let st = explore(&ctx.pool, jobs, j);
    rep.part("alias relations", st, serde_json::json!({"shapes": 15, "d": if ctx.quick() { 0 } else { 1 }}));
    let mut jobs = vec![];
    for s in cross_link_scenarios(ctx.quick()) {
        let s = Arc::new(s);
        for b in base_specs() {
            jobs.push((s.clone(), b, if ctx.quick() { 1 } else { 2 }));
        }
    }
    let st = explore(&ctx.pool, jobs, j);
    rep.part("two sources meeting at one destination path through links to each other's files, schedule search", st, serde_json::json!({"d": if ctx.quick() { 1 } else { 2 }}));
    let st = kill_sweep(ctx, &kill_scenarios(), if ctx.quick() { 0 } else { 1 }, j);
    rep.part("SIGKILL at every decision point", st, serde_json::json!({"deviations_before_the_kill": if ctx.quick() { 0 } else { 1 }}));
    let (st, nsites) = c04::fault_sweep(ctx, j, 0);
    rep.part("single injected failures (C04's sites)", st, serde_json::json!({"sites": nsites}));
    rep.assumptions = vec!["kill = SIGKILL of the whole process between two system calls (the supervisor stops every thread at call boundaries); power-loss semantics are not modelled".into(), "atime is not compared".into()];
    rep
}
