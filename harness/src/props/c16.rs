//! C16 — invalid invocations are rejected with no side effects

use super::*;
use crate::explore::Judge;
use crate::scen::Entry;

pub fn judge(_w: &Worker, scen: &Scenario, ex: &Exec) -> Judgement {
    let exp = model::expect(scen);
    let mut v = vec![];
    if let Some(why) = &exp.reject {
        if exit0(ex) {
            v.push(format!("exit 0 for an invocation that cannot be honoured ({})", why));
        }
        for (k, b) in &ex.before {
            match ex.snap.get(k) {
                None => v.push(format!("{} disappeared ({})", k, why)),
                Some(a) => {
                    if let Some(d) = b.diff_all(a) {
                        v.push(format!("{} changed: {} ({})", k, d, why));
                    }
                }
            }
        }
        for k in ex.snap.keys() {
            if !ex.before.contains_key(k) {
                v.push(format!("{} was created although the invocation must be rejected ({})", k, why));
            }
        }
    }
    v.truncate(6);
    let mut j = simple_judge(v, ex, exp.reject.is_some());
    j.outcome_key = format!("{}:{}", ex.res.outcome.short(), exp.reject.clone().unwrap_or_else(|| "valid".into()));
    j
}

fn dest_states() -> Vec<(&'static str, Vec<Entry>)> {
    vec![
        ("absent", vec![]),
        ("file", vec![Entry::file("dst", "existing destination file").mtime(1_200_000_000, 1)]),
        ("emptydir", vec![Entry::dir("dst")]),
        ("populated", vec![Entry::dir("dst"), Entry::file("dst/v1", "earlier").mtime(1_200_000_000, 2), Entry::dir("dst/sd"), Entry::file("dst/sd/x", "deep").mtime(1_200_000_001, 3), Entry::file("dst/sdir", "name clash").mtime(1_200_000_002, 4)]),
    ]
}

pub fn scenarios() -> Vec<Scenario> {
    let mut v = vec![];
    let base = || vec![Entry::file("v1", "valid one").mtime(1_300_000_000, 1), Entry::file("v2", "valid two").mtime(1_300_000_001, 2), Entry::dir("sdir"), Entry::file("sdir/in", "inside").mtime(1_300_000_002, 3), Entry::link("ldir", "sdir"), Entry::link("lldir", "ldir")];
    for d in drivers() {
        for (dn, dstate) in dest_states() {
            let mk = |name: &str, extra: Vec<Entry>, args: Vec<String>| {
                let mut tree = base();
                tree.extend(dstate.clone());
                tree.extend(extra);
                let mut a: Vec<String> = vec!["--driver".into(), d.into()];
                a.extend(args);
                let ar: Vec<&str> = a.iter().map(|s| s.as_str()).collect();
                Scenario::new(&format!("reject-{}-dst{}-{}", name, dn, d), tree, &ar)
            };
            let s = |x: &[&str]| x.iter().map(|y| y.to_string()).collect::<Vec<String>>();
            // positions of an offending argument among 0..2 valid ones
            let positions = |bad: &str| -> Vec<(String, Vec<String>)> {
                vec![
                    ("alone".into(), s(&[bad, "dst"])),
                    ("first".into(), s(&[bad, "v1", "v2", "dst"])),
                    ("middle".into(), s(&["v1", bad, "v2", "dst"])),
                    ("last".into(), s(&["v1", "v2", bad, "dst"])),
                ]
            };
            v.push(mk("noargs", vec![], vec![]));
            v.push(mk("onepath", vec![], s(&["v1"])));
            for (pn, a) in positions("missing") {
                v.push(mk(&format!("missing-source-{}", pn), vec![], a));
            }
            for (pn, a) in positions("sdir") {
                v.push(mk(&format!("dir-without-r-{}", pn), vec![], a));
            }
            for (pn, a) in positions("ldir") {
                v.push(mk(&format!("link-to-dir-without-r-{}", pn), vec![], a.clone()));
                let mut a2 = vec!["-L".to_string()];
                a2.extend(a);
                v.push(mk(&format!("link-to-dir-without-r-deref-{}", pn), vec![], a2));
            }
            v.push(mk("link-chain-to-dir-without-r", vec![], s(&["lldir", "dst"])));
            v.push(mk("several-sources-nondir-dest", vec![], s(&["v1", "v2", "dst"])));
            v.push(mk("several-sources-nondir-dest-r", vec![], s(&["-r", "v1", "sdir", "dst"])));
            v.push(mk("dir-onto-file", vec![], s(&["-r", "sdir", "dst"])));
            v.push(mk("same-direct", vec![], s(&["v1", "v1"])));
            v.push(mk("same-direct-dir", vec![], s(&["-r", "sdir", "sdir"])));
            v.push(mk("same-via-dest-basename", vec![Entry::dir("into"), Entry::file("into/v1", "there").mtime(1_200_000_000, 9)], s(&["into/v1", "into"])));
            v.push(mk("same-among-valid", vec![Entry::dir("into"), Entry::file("into/v1", "there").mtime(1_200_000_000, 9)], s(&["v2", "into/v1", "into"])));
            for (pn, a) in positions("missing") {
                let mut a2 = vec!["-n".to_string(), "-f".to_string()];
                a2.extend(a);
                v.push(mk(&format!("n-with-f-and-missing-{}", pn), vec![], a2));
            }
            v.push(mk("n-with-f", vec![], s(&["-n", "-f", "v1", "dst"])));
            v.push(mk("n-with-f-r", vec![], s(&["-n", "-f", "-r", "sdir", "v1", "dst"])));
            v.push(mk("unknown-reflink", vec![], s(&["--reflink", "sometimes", "v1", "dst"])));
            v.push(mk("unknown-backup", vec![], s(&["--backup", "simple", "v1", "dst"])));
            v.push(mk("bad-block-size", vec![], s(&["--block-size", "12parsecs", "v1", "dst"])));
            v.push(mk("bad-block-size-r", vec![], s(&["-r", "--block-size", "", "sdir", "dst"])));
            for (pn, a) in positions("v[") {
                let mut a2 = vec!["-g".to_string()];
                a2.extend(a);
                v.push(mk(&format!("malformed-glob-{}", pn), vec![], a2));
            }
            for (pn, a) in positions("***") {
                let mut a2 = vec!["-g".to_string()];
                a2.extend(a);
                v.push(mk(&format!("malformed-glob-stars-{}", pn), vec![], a2));
            }
            // the same classes reached through --glob: one pattern that expands to several sources, to a directory, ...
            v.push(mk("glob-several-onto-nondir", vec![], s(&["-g", "v?", "dst"])));
            v.push(mk("glob-several-onto-nondir-star", vec![], s(&["-g", "v*", "dst"])));
            v.push(mk("glob-two-patterns-onto-nondir", vec![], s(&["-g", "v1", "v2*", "dst"])));
            v.push(mk("glob-dir-without-r", vec![], s(&["-g", "sd*", "dst"])));
            v.push(mk("glob-dir-without-r-among-valid", vec![], s(&["-g", "v1", "sd*", "dst"])));
            v.push(mk("glob-dir-onto-file", vec![], s(&["-r", "-g", "sdi?", "dst"])));
            v.push(mk("glob-same-as-dest", vec![], s(&["-g", "v1*", "v1"])));
            v.push(mk("glob-no-match", vec![], s(&["-g", "nomatch*", "dst"])));
            v.push(mk("glob-no-match-2", vec![], s(&["-g", "zz?", "qq*", "dst"])));
            v.push(mk("target-directory-missing-source", vec![], s(&["--target-directory", "dst", "v1", "missing"])));
            // several sources need a directory to go into, however the destination is named
            v.push(mk("target-directory-several-sources", vec![], s(&["--target-directory", "dst", "v1", "v2"])));
            v.push(mk("target-directory-several-sources-r", vec![], s(&["-r", "--target-directory", "dst", "sdir", "v1"])));
            v.push(mk("target-directory-several-sources-last", vec![], s(&["v1", "v2", "--target-directory", "dst"])));
            v.push(mk("target-directory-glob-several", vec![], s(&["-g", "--target-directory", "dst", "v?"])));
            v.push(mk("target-directory-no-source", vec![], s(&["--target-directory", "dst"])));
        }
        // unknown driver: the option value itself is the offence
        for (dn, dstate) in dest_states() {
            let mut tree = base();
            tree.extend(dstate);
            v.push(Scenario::new(&format!("reject-unknown-driver-dst{}-{}", dn, d), tree, &["--driver", "warp", "v1", "dst"]));
        }
    }
    v
}

/// "source identical to destination" when the two are one file under different spellings (C03's alias shapes), with
/// and without backups: rejected, and nothing renamed, created or truncated first
pub fn judge_alias(_w: &Worker, _scen: &Scenario, ex: &Exec) -> Judgement {
    let mut v = vec![];
    let why = "source and destination are one file";
    if exit0(ex) {
        v.push(format!("exit 0 for an invocation that cannot be honoured ({})", why));
    }
    for (k, b) in &ex.before {
        match ex.snap.get(k) {
            None => v.push(format!("{} disappeared ({})", k, why)),
            Some(a) => {
                if let Some(d) = b.diff_all(a) {
                    v.push(format!("{} changed: {} ({})", k, d, why));
                }
            }
        }
    }
    for k in ex.snap.keys() {
        if !ex.before.contains_key(k) {
            v.push(format!("{} was created although the invocation must be rejected ({})", k, why));
        }
    }
    v.truncate(6);
    simple_judge(v, ex, true)
}

pub fn alias_scenarios() -> Vec<Scenario> {
    let mut v = vec![];
    for s in c03::alias_scenarios() {
        v.push(s.clone());
        if s.name.ends_with("-numbered") {
            // auto mode with a backup already present behaves like numbered
            let mut a = s.clone();
            a.name = a.name.replace("-numbered", "-auto");
            for x in a.args.iter_mut() {
                if x == "numbered" {
                    *x = "auto".into();
                }
            }
            let dest = a.args.last().cloned().unwrap_or_default();
            if !dest.ends_with('.') && !dest.contains("..") && !dest.contains("{R}") {
                let mut cwd = a.cwd.clone();
                if !cwd.is_empty() {
                    cwd.push('/');
                }
                a.tree.push(Entry::file(&format!("{}{}.~1~", cwd, dest.trim_start_matches("./")), "an older backup").mtime(1_100_000_000, 1));
                v.push(a);
            }
        }
    }
    v
}

pub fn run(ctx: &Ctx) -> Report {
    let mut rep = Report::new(
        "model_checking",
        "every rejection class of the property (no arguments, one path, missing source, directory without -r, several sources onto a non-directory, directory onto a file, source identical to destination directly and via dest/basename, -n with -f, unknown driver/reflink/backup values, unparsable block size, malformed glob, glob without match) x position of the offending argument {alone, first, middle, last} x destination state {absent, file, empty dir, populated dir} x both drivers, executed by the real binary under P0 and P1; oracle: exit != 0 and the whole sandbox identical before/after in every snapshot field incl. ctime and inode; non-trivial = the reference model classifies the invocation as one that cannot be honoured",
    );
    let j: Judge = &judge;
    let sc = scenarios();
    let n = sc.len();
    let st = scen_batch(ctx, sc, &[Policy::P0, Policy::P1], j);
    rep.part("rejection classes x positions x destination states", st, serde_json::json!({"scenarios": n}));
    let sc = alias_scenarios();
    let n = sc.len();
    let ja: Judge = &judge_alias;
    let st = scen_batch(ctx, sc, &[Policy::P0, Policy::P1], ja);
    rep.part("source and destination one file under different spellings (dot-slash, .., own directory, absolute, symlink, hard link, linked directory) x backup {none, numbered, auto with a backup present}", st, serde_json::json!({"scenarios": n}));
    rep.assumptions = vec!["under -g a pattern matching nothing next to patterns that match is documented as dropped and is not among the property's classes".into()];
    rep
}
