//! shared infrastructure of the property drivers: tiers, known findings, replay files, evidence

use crate::explore::{Exec, Judgement, Pool, Stats, Violation};
use crate::model::{self, Expectation, Level};
use crate::scen::{Bins, Scenario, Worker};
use crate::sup::{Outcome, Policy, RunSpec};
use serde_json::{json, Value};
use std::collections::BTreeMap;
use std::time::Instant;

pub mod c01;
pub mod c02;
pub mod c03;
pub mod c04;
pub mod c05;
pub mod c06;
pub mod c07;
pub mod c08;
pub mod c09;
pub mod c10;
pub mod c11;
pub mod c12;
pub mod c13;
pub mod c14;
pub mod c15;
pub mod c16;
pub mod c17;
pub mod c18;
pub mod c19;
pub mod c20;
pub mod replay;
pub mod sets;

#[derive(Clone, Copy, PartialEq, Debug)]
pub enum Tier {
    Quick,
    Thorough,
}

pub struct Ctx {
    pub prop: String,
    pub tier: Tier,
    pub pool: Pool,
    pub t0: Instant,
    pub seed: i64,
    pub verif_dir: String,
    pub repo_dir: String,
}

impl Ctx {
    pub fn quick(&self) -> bool {
        self.tier == Tier::Quick
    }
}

/// result of one part of a check
pub struct Part {
    pub name: String,
    pub stats: Stats,
    pub bounds: Value,
    /// space below the bound fully enumerated
    pub exhaustive: bool,
}

pub struct Report {
    pub level: &'static str,
    pub rule: String,
    pub parts: Vec<Part>,
    pub assumptions: Vec<String>,
    pub extra: BTreeMap<String, Value>,
    /// violations that do not come from a supervised execution (in-process enumerations)
    pub plain_violations: Vec<(String, Value)>,
    pub machinery_errors: Vec<String>,
}

impl Report {
    pub fn new(level: &'static str, rule: &str) -> Report {
        Report { level, rule: rule.to_string(), parts: vec![], assumptions: vec![], extra: BTreeMap::new(), plain_violations: vec![], machinery_errors: vec![] }
    }
    pub fn part(&mut self, name: &str, stats: Stats, bounds: Value) {
        let exhaustive = !stats.capped && stats.engine_errors.is_empty();
        self.parts.push(Part { name: name.to_string(), stats, bounds, exhaustive });
    }
}

#[derive(Clone, Debug)]
pub struct Finding {
    pub id: String,
    pub property: String,
    pub what: String,
    pub m_scenario: Option<String>,
    pub m_msg: Option<String>,
    pub m_fault: Option<String>,
    pub m_args: Option<String>,
    pub m_site: Option<String>,
}

pub fn load_findings(verif_dir: &str) -> (Vec<Finding>, Vec<String>) {
    let p = format!("{}/known_findings.json", verif_dir);
    let txt = match std::fs::read_to_string(&p) {
        Ok(t) => t,
        Err(_) => return (vec![], vec![]),
    };
    let v: Value = serde_json::from_str(&txt).expect("known_findings.json must parse");
    let mut out = vec![];
    for f in v["open"].as_array().cloned().unwrap_or_default() {
        let g = |k: &str| f["match"][k].as_str().map(|s| s.to_string());
        out.push(Finding { id: f["id"].as_str().unwrap_or("").into(), property: f["property"].as_str().unwrap_or("").into(), what: f["what"].as_str().unwrap_or("").into(), m_scenario: g("scenario"), m_msg: g("msg"), m_fault: g("fault"), m_args: g("args"), m_site: g("site") });
    }
    let fixed = v["fixed"].as_array().cloned().unwrap_or_default().iter().filter_map(|x| x.as_str().map(|s| s.to_string())).collect();
    (out, fixed)
}

impl Finding {
    pub fn matches(&self, prop: &str, v: &Violation) -> bool {
        if self.property != prop {
            return false;
        }
        if let Some(s) = &self.m_scenario {
            if !v.scen.name.contains(s.as_str()) {
                return false;
            }
        }
        if let Some(s) = &self.m_args {
            if !v.scen.args.join(" ").contains(s.as_str()) {
                return false;
            }
        }
        if let Some(s) = &self.m_msg {
            // every message of the violation must be explained by the finding
            if v.msgs.is_empty() || !v.msgs.iter().all(|m| m.contains(s.as_str())) {
                return false;
            }
        }
        if let Some(s) = &self.m_site {
            if !v.hit_sites.iter().any(|h| h == s) {
                return false;
            }
        }
        if let Some(s) = &self.m_fault {
            if !v.spec.faults.iter().any(|f| f.call.contains(s.as_str())) {
                return false;
            }
        }
        true
    }
}

fn sanitize(s: &str) -> String {
    s.chars().map(|c| if c.is_ascii_alphanumeric() || c == '-' || c == '_' || c == '.' { c } else { '_' }).take(80).collect()
}

pub fn violation_json(prop: &str, v: &Violation) -> Value {
    json!({
        "property": prop,
        "scenario": serde_json::to_value(&v.scen).unwrap(),
        "spec": serde_json::to_value(&v.spec).unwrap(),
        "verdict": v.msgs,
        "outcome": v.outcome,
        "trace": v.trace,
        "snapshot_after": v.snap,
        "stderr": v.stderr,
        "altered_calls": v.hit_sites,
    })
}

/// Finish a check: classify violations against the known findings, write replay files and the
/// evidence file, print the verdict lines. Returns the process exit code.
pub fn finish(ctx: &Ctx, rep: Report) -> i32 {
    let (findings, _fixed) = load_findings(&ctx.verif_dir);
    let mut total = Stats::default();
    let mut parts_json = vec![];
    let mut exhaustive = true;
    let mut all_viol: Vec<Violation> = vec![];
    for p in rep.parts {
        exhaustive &= p.exhaustive;
        parts_json.push(json!({
            "part": p.name,
            "bounds": p.bounds,
            "executions": p.stats.execs,
            "decision_points": p.stats.decision_points,
            "steps": p.stats.steps,
            "distinct_traces": p.stats.traces.len(),
            "distinct_outcomes": p.stats.outcomes.len(),
            "exit_classes": p.stats.exits,
            "faults_requested": p.stats.faults_requested,
            "faults_reached": p.stats.faults_reached,
            "watchdog_reruns": p.stats.watchdog_reruns,
            "violations": p.stats.violations.len(),
            "capped": p.stats.capped,
            "exhaustive": p.exhaustive,
            "engine_errors": p.stats.engine_errors.len(),
        }));
        all_viol.extend(p.stats.violations.iter().cloned());
        total.merge(p.stats);
    }
    let mut machinery: Vec<String> = rep.machinery_errors.clone();
    machinery.extend(total.engine_errors.iter().cloned());

    // violations vs known findings
    let rdir = format!("{}/replays/{}", ctx.verif_dir, ctx.prop);
    let _ = std::fs::remove_dir_all(&rdir);
    let mut known_hit: BTreeMap<String, usize> = BTreeMap::new();
    let mut new_viol = 0usize;
    let mut lines = vec![];
    let mut groups: BTreeMap<String, usize> = BTreeMap::new();
    for (i, v) in all_viol.iter().enumerate() {
        if let Some(f) = findings.iter().find(|f| f.matches(&ctx.prop, v)) {
            let c = known_hit.entry(f.id.clone()).or_insert(0);
            *c += 1;
            if *c == 1 {
                lines.push(format!("KNOWN-FINDING: property={} {}: {}", ctx.prop, f.id, f.what));
            }
            continue;
        }
        new_viol += 1;
        *groups.entry(format!("{} | {}", v.msgs.first().cloned().unwrap_or_default(), v.hit_sites.first().cloned().unwrap_or_default())).or_insert(0) += 1;
        if new_viol <= 10 {
            let _ = std::fs::create_dir_all(&rdir);
            let path = format!("{}/{:03}-{}.json", rdir, i, sanitize(&v.scen.name));
            let _ = std::fs::write(&path, serde_json::to_string_pretty(&violation_json(&ctx.prop, v)).unwrap());
            lines.push(format!("VIOLATION property={} replay={}", ctx.prop, path));
            eprintln!("  -> {} [{}] {:?}", v.scen.cmdline(), v.outcome, v.msgs.iter().take(3).collect::<Vec<_>>());
        }
    }
    for (g, c) in groups.iter().take(60) {
        eprintln!("  [{}x] {}", c, g);
    }
    for (i, (msg, detail)) in rep.plain_violations.iter().enumerate() {
        let fake = findings.iter().find(|f| f.property == ctx.prop && f.m_msg.as_ref().map(|m| msg.contains(m.as_str())).unwrap_or(false) && f.m_scenario.is_none() && f.m_fault.is_none());
        if let Some(f) = fake {
            let c = known_hit.entry(f.id.clone()).or_insert(0);
            *c += 1;
            if *c == 1 {
                lines.push(format!("KNOWN-FINDING: property={} {}: {}", ctx.prop, f.id, f.what));
            }
            continue;
        }
        new_viol += 1;
        if new_viol <= 10 {
            let _ = std::fs::create_dir_all(&rdir);
            let path = format!("{}/plain-{:03}.json", rdir, i);
            let _ = std::fs::write(&path, serde_json::to_string_pretty(&json!({"property": ctx.prop, "verdict": msg, "detail": detail})).unwrap());
            lines.push(format!("VIOLATION property={} replay={}", ctx.prop, path));
            eprintln!("  -> {}", msg);
        }
    }

    let wall = ctx.t0.elapsed().as_secs_f64();
    let extra_execs: u64 = rep.extra.get("inprocess_evaluations").and_then(|v| v.as_u64()).unwrap_or(0);
    let extra_nontrivial: u64 = rep.extra.get("inprocess_nontrivial").and_then(|v| v.as_u64()).unwrap_or(0);
    let mut cov = serde_json::Map::new();
    cov.insert("evaluations".into(), json!(total.execs as u64 + extra_execs));
    cov.insert("distinct_nontrivial".into(), json!(total.nontrivial_traces.len() as u64 + extra_nontrivial));
    cov.insert("rule".into(), json!(rep.rule));
    let mut samples: Vec<Value> = total.samples.iter().map(|s| json!(s)).collect();
    if let Some(Value::Array(a)) = rep.extra.get("samples") {
        samples.extend(a.iter().cloned());
    }
    if samples.is_empty() {
        samples.push(json!("(no execution completed)"));
    }
    cov.insert("samples".into(), json!(samples));
    cov.insert("states".into(), json!((total.decision_points as u64 + extra_execs).max(1)));
    cov.insert("transitions".into(), json!((total.steps as u64 + extra_execs).max(1)));
    cov.insert("traces_validated_against_impl".into(), json!(total.execs as u64));
    cov.insert("explanation".into(), json!("every case is an execution of the real binary built from /repo under the xsup supervisor (or an in-process call of the real library function); there is no abstract model whose traces need replaying"));
    cov.insert("exhaustive".into(), json!(exhaustive && machinery.is_empty()));
    cov.insert("distinct_traces".into(), json!(total.traces.len()));
    cov.insert("distinct_outcomes".into(), json!(total.outcomes.len()));
    cov.insert("exit_classes".into(), json!(total.exits));
    cov.insert("parts".into(), json!(parts_json));
    cov.insert("known_findings_hit".into(), json!(known_hit));
    cov.insert("machinery_errors".into(), json!(machinery.iter().take(10).collect::<Vec<_>>()));
    for (k, v) in &rep.extra {
        if k != "samples" {
            cov.insert(k.clone(), v.clone());
        }
    }
    let ev = json!({
        "property_id": ctx.prop,
        "tier": if ctx.quick() { "quick" } else { "thorough" },
        "seed": ctx.seed,
        "level": rep.level,
        "coverage": Value::Object(cov),
        "assumptions": rep.assumptions,
        "wall_s": wall,
        "violations": new_viol,
    });
    let edir = format!("{}/evidence", ctx.verif_dir);
    let _ = std::fs::create_dir_all(&edir);
    std::fs::write(format!("{}/{}.json", edir, ctx.prop), serde_json::to_string_pretty(&ev).unwrap()).expect("write evidence");

    for l in &lines {
        println!("{}", l);
    }
    println!(
        "{} {}: executions={} decision_points={} steps={} distinct_traces={} outcomes={} nontrivial={} exhaustive={} wall={:.1}s violations={} known={:?}",
        ctx.prop,
        if ctx.quick() { "quick" } else { "thorough" },
        total.execs as u64 + extra_execs,
        total.decision_points,
        total.steps,
        total.traces.len(),
        total.outcomes.len(),
        total.nontrivial_traces.len() as u64 + extra_nontrivial,
        exhaustive,
        wall,
        new_viol,
        known_hit
    );
    for m in machinery.iter().take(5) {
        eprintln!("MACHINERY ERROR: {}", m);
    }
    // a violation is a recorded execution of the real program that replays on its own: it stands whatever happened
    // to other executions of the same run; without one, an engine error means the run decided nothing
    if new_viol > 0 {
        return 1;
    }
    if !machinery.is_empty() {
        return 2;
    }
    0
}

// ---------------------------------------------------------------------------------------------
// helpers shared by the judges

pub fn exit0(ex: &Exec) -> bool {
    ex.res.outcome == Outcome::Exited(0)
}

pub fn run_start_secs() -> i64 {
    // executions are short; "current" mtimes are compared against the harness start with slack
    static T: std::sync::OnceLock<i64> = std::sync::OnceLock::new();
    *T.get_or_init(|| std::time::SystemTime::now().duration_since(std::time::UNIX_EPOCH).unwrap().as_secs() as i64)
}

/// exit 0 => sandbox equals the reference tree (at `level`)
pub fn judge_exit0_tree(w: &Worker, scen: &Scenario, ex: &Exec, exp: &Expectation, level: Level) -> Vec<String> {
    if !exit0(ex) {
        return vec![];
    }
    let root = w.root(scen.fs);
    let mut v = model::compare(exp, &ex.snap, &root, level, run_start_secs());
    v.truncate(8);
    v.iter().map(|m| format!("exit 0 but {}", m)).collect()
}

pub fn outcome_key(ex: &Exec) -> String {
    // canonical, schedule-independent rendering of what a user can observe afterwards
    let mut s = ex.res.outcome.short();
    if exit0(ex) {
        let mut h = crate::util::Fnv::new();
        for (k, n) in &ex.snap {
            h.write(k.as_bytes());
            h.write(&[n.kind as u8]);
            h.write(&n.hash.to_le_bytes());
            if let Some(l) = &n.link {
                h.write(l);
            }
            if n.kind == 'f' {
                h.write(&n.mode.to_le_bytes());
                h.write(&n.mtime.0.to_le_bytes());
                h.write(&n.mtime.1.to_le_bytes());
            }
        }
        s.push_str(&format!(":{:016x}", h.finish()));
    }
    s
}

pub fn base_specs() -> Vec<RunSpec> {
    vec![RunSpec::base(Policy::P0), RunSpec::base(Policy::P1)]
}

pub fn mk_pool(bins: &Bins, n: usize, budget_s: Option<u64>) -> Pool {
    Pool { n, bins: bins.clone(), deadline: budget_s.map(|s| Instant::now() + std::time::Duration::from_secs(s)) }
}

pub fn simple_judge(violations: Vec<String>, ex: &Exec, nontrivial: bool) -> Judgement {
    Judgement { violations, outcome_key: outcome_key(ex), nontrivial }
}

pub fn drivers() -> [&'static str; 2] {
    ["parfile", "parblock"]
}

/// run every scenario once under each of the given base policies
pub fn scen_batch(ctx: &Ctx, scens: Vec<Scenario>, policies: &[Policy], judge: crate::explore::Judge) -> Stats {
    let mut jobs = vec![];
    for s in scens {
        let s = std::sync::Arc::new(s);
        for p in policies {
            jobs.push((s.clone(), RunSpec::base(p.clone()), 0usize));
        }
    }
    crate::explore::explore(&ctx.pool, jobs, judge)
}
