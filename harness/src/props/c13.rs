//! C13 — --dereference copies what links point to, or fails; never leaves links or gaps

use super::*;
use crate::explore::Judge;
use crate::scen::Entry;

pub fn judge(w: &Worker, scen: &Scenario, ex: &Exec) -> Judgement {
    let exp = model::expect(scen);
    let mut v = vec![];
    if let Some(why) = exp.must_fail.as_ref().or(exp.reject.as_ref()) {
        if exit0(ex) {
            v.push(format!("exit 0 although {}", why));
        }
    }
    if exit0(ex) {
        v.extend(judge_exit0_tree(w, scen, ex, &exp, Level::Content));
        for (k, n) in ex.snap.iter().filter(|_| exp.opts.deref) {
            if (k == "dst" || k.starts_with("dst/")) && n.kind == 'l' {
                v.push(format!("exit 0 but the destination contains a symbolic link: {}", k));
            }
        }
    }
    v.truncate(8);
    simple_judge(v, ex, true)
}

/// link specifications placed inside src/ : (name, entries)
fn specs() -> Vec<(&'static str, Vec<Entry>)> {
    let chain = |n: usize, name: &str, last: &str| -> Vec<Entry> {
        let mut v = vec![];
        for i in 0..n {
            let p = format!("src/{}{}", name, i);
            let t = if i + 1 == n { last.to_string() } else { format!("{}{}", name, i + 1) };
            v.push(Entry::link(&p, &t));
        }
        v
    };
    vec![
        ("rel-file", vec![Entry::link("src/l_rel", "t")]),
        ("abs-file", vec![Entry::link("src/l_abs", "{R}/src/t")]),
        ("outside-file", vec![Entry::link("src/l_out", "../outside/o")]),
        ("rel-dir", vec![Entry::link("src/ld", "rd")]),
        ("abs-dir", vec![Entry::link("src/ld_abs", "{R}/src/rd")]),
        ("outside-dir", vec![Entry::link("src/ld_out", "../outside")]),
        ("nested-dir-link", vec![Entry::link("src/rd/up_to_t", "../t")]),
        ("dir-with-inner-dirlink", vec![Entry::dir("src/rd/inner"), Entry::file("src/rd/inner/y", "inner y"), Entry::link("src/ld_inner", "rd/inner")]),
        ("chain2-file", chain(2, "c", "t")),
        ("chain3-dir", chain(3, "k", "rd")),
        ("chain8-file", chain(8, "e", "t")),
        ("dangling", vec![Entry::link("src/dang", "nowhere")]),
        ("dangling-abs", vec![Entry::link("src/dang_abs", "{R}/nowhere")]),
        ("cycle2", vec![Entry::link("src/ca", "cb"), Entry::link("src/cb", "ca")]),
        ("self", vec![Entry::link("src/selfl", "selfl")]),
        ("ancestor-dot", vec![Entry::link("src/anc", ".")]),
        ("ancestor-dotdot", vec![Entry::link("src/rd/anc2", "..")]),
        ("chain41", chain(41, "z", "t")),
        ("link-in-linked-dir-dangling", vec![Entry::link("src/rd/inner_dang", "gone")]),
    ]
}

fn base() -> Vec<Entry> {
    vec![
        Entry::dir("outside"),
        Entry::file("outside/o", "outside content").mtime(1_300_000_009, 9),
        Entry::dir("src"),
        Entry::file("src/t", "target file content").mtime(1_300_000_000, 1),
        Entry::dir("src/rd"),
        Entry::file("src/rd/x", "x in real dir").mtime(1_300_000_001, 2),
    ]
}

pub fn scenarios(quick: bool) -> Vec<Scenario> {
    let mut v = vec![];
    let sp = specs();
    for d in drivers() {
        // inside a -r tree: each spec alone, and each pair
        for i in 0..sp.len() {
            let mut tree = base();
            tree.extend(sp[i].1.clone());
            v.push(Scenario::new(&format!("deref-tree-{}-{}", sp[i].0, d), tree, &["-r", "-L", "--driver", d, "-w", "2", "src", "dst"]));
            for j in (i + 1)..sp.len() {
                if quick && (i * 7 + j) % 3 != 0 {
                    continue;
                }
                let mut tree = base();
                tree.extend(sp[i].1.clone());
                tree.extend(sp[j].1.clone());
                v.push(Scenario::new(&format!("deref-tree-{}+{}-{}", sp[i].0, sp[j].0, d), tree, &["-r", "-L", "--driver", d, "-w", "2", "src", "dst"]));
            }
        }
        // as the top-level source argument
        for (name, ents) in &sp {
            let mut tree = base();
            tree.extend(ents.clone());
            let first = ents.iter().find(|e| matches!(e.kind, crate::scen::Kind::Symlink(_))).unwrap().path.clone();
            for dest_exists in [false, true] {
                let mut t2 = tree.clone();
                if dest_exists {
                    t2.push(Entry::dir("dst"));
                }
                v.push(Scenario::new(&format!("deref-top-{}-{}-dst{}", name, d, dest_exists), t2, &["-r", "-L", "--driver", d, "-w", "2", &first, "dst"]));
            }
        }
        // -L without -r: link operands that lead to files (a directory still needs -r)
        for idx in [0usize, 1, 2, 8, 10] {
            let (name, ents) = &sp[idx];
            let mut tree = base();
            tree.extend(ents.clone());
            let first = ents.iter().find(|e| matches!(e.kind, crate::scen::Kind::Symlink(_))).unwrap().path.clone();
            for dest_exists in [false, true] {
                let mut t2 = tree.clone();
                if dest_exists {
                    t2.push(Entry::dir("dst"));
                }
                v.push(Scenario::new(&format!("deref-norecursive-{}-{}-dst{}", name, d, dest_exists), t2, &["-L", "--driver", d, "-w", "2", &first, "dst"]));
            }
        }
        {
            let mut tree = base();
            tree.extend(sp[0].1.clone());
            tree.extend(sp[1].1.clone());
            tree.push(Entry::dir("dst"));
            v.push(Scenario::new(&format!("deref-norecursive-two-operands-{}", d), tree, &["-L", "--driver", d, "-w", "2", "src/l_rel", "src/l_abs", "src/t", "dst"]));
        }
        // the same link shapes selected by xcp's own --glob expansion (the pattern matches the links among other
        // entries): a link that cannot be resolved is still a selected source and must make the run fail
        for (name, ents) in &sp {
            let mut tree = base();
            tree.extend(ents.clone());
            tree.push(Entry::dir("dst"));
            v.push(Scenario::new(&format!("deref-glob-{}-{}", name, d), tree, &["-r", "-L", "-g", "--driver", d, "-w", "2", "src/*", "dst"]));
        }
        // without -L links stay links (control)
        let mut tree = base();
        tree.extend(sp[0].1.clone());
        tree.extend(sp[3].1.clone());
        tree.extend(sp[11].1.clone());
        v.push(Scenario::new(&format!("noderef-control-{}", d), tree, &["-r", "--driver", d, "-w", "2", "src", "dst"]));
    }
    v
}

pub fn run(ctx: &Ctx) -> Report {
    let mut rep = Report::new(
        "model_checking",
        "trees built from 19 link shapes (relative/absolute/outside links to files and directories, links inside linked directories, chains of 2, 3, 8 and 41 links, dangling, 2-cycle, self-link, links to ancestors), each alone and in pairs inside a -r tree and as the top-level source, both drivers, executed under P0 and P1; oracle: the reference model resolves every path; exit 0 => no symbolic link anywhere in the destination, files carry the target's bytes, linked directories their contents; any dangling or cyclic link => exit != 0; non-trivial = distinct trace",
    );
    let j: Judge = &judge;
    let sc = scenarios(ctx.quick());
    let n = sc.len();
    let st = scen_batch(ctx, sc, &[Policy::P0, Policy::P1], j);
    rep.part("link shapes alone, in pairs, as top-level source", st, serde_json::json!({"scenarios": n}));
    // resolving a link may fail half-way (readlink / stat errors, a target that has just vanished): the run may
    // fail, but it must not fall back to copying the link
    {
        let w = Worker::new(144, &ctx.pool.bins);
        let sp = specs();
        let mut jobs = vec![];
        let mut errs = vec![];
        let mut nsites = 0;
        for d in drivers() {
            let mut tree = base();
            for i in [0usize, 1, 3, 8] {
                tree.extend(sp[i].1.clone());
            }
            let s = Scenario::new(&format!("deref-faults-{}", d), tree, &["-r", "-L", "--driver", d, "-w", "2", "src", "dst"]);
            let sa = std::sync::Arc::new(s.clone());
            let basespec = RunSpec::base(Policy::P0);
            let rec = match w.run(&s, &basespec) {
                Ok(r) => r,
                Err(e) => {
                    errs.push(format!("recording run of {}: {}", s.name, e));
                    continue;
                }
            };
            let mut cnt: std::collections::BTreeMap<(usize, String), usize> = std::collections::BTreeMap::new();
            for e in &rec.events {
                let c = cnt.entry((e.th, e.name.clone())).or_insert(0);
                *c += 1;
                if matches!(e.name.as_str(), "readlink" | "readlinkat" | "statx" | "newfstatat" | "lstat" | "stat") && e.rel.as_deref().map(|r| r.starts_with("src") || r.starts_with("outside")).unwrap_or(false) {
                    nsites += 1;
                    for en in [libc::EIO, libc::ENAMETOOLONG, libc::ENOENT, libc::EACCES] {
                        let mut spc = basespec.clone();
                        spc.faults.push(crate::sup::Fault { call: e.name.clone(), thread: Some(rec.threads[e.th].clone()), nth: Some(*c), path_contains: None, action: crate::sup::Action::Errno(en) });
                        jobs.push((sa.clone(), spc, 0usize));
                    }
                }
            }
        }
        let st = crate::explore::explore(&ctx.pool, jobs, j);
        rep.part("every readlink / stat of a source path failing (EIO, ENAMETOOLONG, ENOENT, EACCES)", st, serde_json::json!({"sites": nsites}));
        rep.machinery_errors.extend(errs);
    }
    rep
}
