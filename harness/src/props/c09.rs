//! C09 (to be filled in)
use super::*;
pub fn run(_ctx: &Ctx) -> Report {
    let mut r = Report::new("model_checking", "not implemented");
    r.machinery_errors.push("C09 not implemented yet".into());
    r
}
