//! C09 — numbered backups never lose a version, for any name, history or kill point

use super::*;
use crate::explore::{explore, Judge};
use crate::scen::{Entry, Kind};
use crate::util::{esc, unesc};
use serde::{Deserialize, Serialize};
use serde_json::json;
use std::collections::BTreeMap;
use std::sync::Arc;

/// exact `<name>.~N~`
fn backup_number(name: &str, cand: &str) -> Option<u64> {
    let rest = cand.strip_prefix(name)?;
    let num = rest.strip_prefix(".~")?.strip_suffix('~')?;
    if num.is_empty() || !num.bytes().all(|c| c.is_ascii_digit()) {
        return None;
    }
    num.parse().ok()
}

// ---------------------------------------------------------------------------------------------
// single-step scenarios (kill points, schedule search): judged from the scenario alone

/// files below dstdir/ in the initial tree: name -> content
fn initial_dst(scen: &Scenario) -> BTreeMap<String, Vec<u8>> {
    scen.tree.iter().filter(|e| e.path.starts_with("dstdir/")).filter_map(|e| e.content().map(|c| (e.path["dstdir/".len()..].to_string(), c.bytes()))).collect()
}

fn source_names(scen: &Scenario) -> Vec<String> {
    scen.tree.iter().filter(|e| e.path.starts_with("src/") && e.content().is_some()).map(|e| e.path["src/".len()..].to_string()).collect()
}

pub fn judge(_w: &Worker, scen: &Scenario, ex: &Exec) -> Judgement {
    let mut v = vec![];
    let init = initial_dst(scen);
    let names = source_names(scen);
    let mode = scen.args.iter().position(|a| a == "--backup").map(|i| scen.args[i + 1].clone()).unwrap_or_else(|| "none".into());
    let after: BTreeMap<String, Vec<u8>> = ex.snap.iter().filter(|(k, n)| k.starts_with("dstdir/") && n.kind == 'f').map(|(k, n)| (k["dstdir/".len()..].to_string(), n.data.clone().unwrap_or_default())).collect();
    for name in &names {
        let old = match init.get(name) {
            Some(o) => o,
            None => continue,
        };
        let nums: Vec<u64> = init.keys().filter_map(|k| backup_number(name, k)).collect();
        let wanted = mode == "numbered" || (mode == "auto" && !nums.is_empty());
        let maxn = nums.iter().max().cloned().unwrap_or(0);
        // every pre-existing backup of this name is untouched
        for k in init.keys().filter(|k| backup_number(name, k).is_some()) {
            if names.contains(k) {
                continue; // a look-alike that is itself being copied
            }
            let p = format!("dstdir/{}", k);
            match (ex.before.get(&p), ex.snap.get(&p)) {
                (Some(b), Some(a)) => {
                    if b.hash != a.hash || b.ino != a.ino || b.size != a.size || b.mtime != a.mtime {
                        v.push(format!("existing backup {} was modified or replaced", k));
                    }
                }
                (Some(_), None) => v.push(format!("existing backup {} disappeared", k)),
                _ => {}
            }
        }
        if wanted {
            // the old content survives under the original name or under a backup name
            let holders: Vec<&String> = after.iter().filter(|(k, d)| *d == old && (*k == name || backup_number(name, k).is_some())).map(|(k, _)| k).collect();
            if holders.is_empty() {
                v.push(format!("the previous content of {} exists neither under its name nor under a backup name ({})", name, ex.res.outcome.short()));
            }
            if exit0(ex) {
                // preserved as <name>.~N~ with N greater than every number present before
                let ok = after.iter().any(|(k, d)| d == old && backup_number(name, k).map(|n| n > maxn).unwrap_or(false));
                if !ok {
                    v.push(format!("exit 0 but the previous content of {} is not preserved as {}.~N~ with N > {}", name, name, maxn));
                }
            }
        } else if exit0(ex) {
            // no new backup appears
            for k in after.keys() {
                if backup_number(name, k).is_some() && !init.contains_key(k) {
                    v.push(format!("backup {} was created although mode {} asks for none here", k, mode));
                }
            }
        }
    }
    v.truncate(6);
    simple_judge(v, ex, true)
}

/// judge for the two-directory scenario: per directory, the old content is kept under a number above that
/// directory's existing ones and the existing backups are untouched
pub fn judge_two_dirs(_w: &Worker, _scen: &Scenario, ex: &Exec) -> Judgement {
    let mut v = vec![];
    let many_a = _scen.name.contains("many-in-a");
    for (dir, maxn) in [("a", if many_a { 3u64 } else { 1 }), ("b", if many_a { 1u64 } else { 3 })] {
        let pre = format!("dstdir/{}/", dir);
        let old = format!("OLD-{}", dir).into_bytes();
        for (p, b) in ex.before.iter().filter(|(p, _)| p.starts_with(&pre) && p.contains(".~")) {
            match ex.snap.get(p) {
                Some(a) if a.hash == b.hash && a.ino == b.ino => {}
                _ => v.push(format!("existing backup {} was modified, replaced or removed", p)),
            }
        }
        let holders: Vec<&String> = ex.snap.iter().filter(|(p, n)| p.starts_with(&pre) && n.data.as_deref() == Some(&old[..])).map(|(p, _)| p).collect();
        if holders.is_empty() {
            v.push(format!("the previous content of {}f is gone ({})", pre, ex.res.outcome.short()));
        } else if exit0(ex) {
            let ok = holders.iter().any(|p| backup_number("f", &p[pre.len()..]).map(|n| n > maxn).unwrap_or(false));
            if !ok {
                v.push(format!("exit 0 but the previous content of {}f is not preserved under a number above {} (found at {:?})", pre, maxn, holders));
            }
        }
    }
    simple_judge(v, ex, true)
}

fn step_scenario(name: &str, names: &[&str], pre: &[(usize, u64)], mode: &str, d: &str) -> Scenario {
    let mut tree = vec![Entry::dir("src"), Entry::dir("dstdir")];
    for (i, n) in names.iter().enumerate() {
        tree.push(Entry::new(&format!("src/{}", n), Kind::File(crate::scen::Content::Bytes(format!("NEW-{}-{}", i, esc(n.as_bytes()))))));
        tree.push(Entry::new(&format!("dstdir/{}", n), Kind::File(crate::scen::Content::Bytes(format!("OLD-{}-{}", i, esc(n.as_bytes()))))).mtime(1_200_000_000 + i as i64, 5));
    }
    for (ni, num) in pre {
        let p = format!("dstdir/{}.~{}~", names[*ni], num);
        if !tree.iter().any(|e| e.path == p) {
            tree.push(Entry::new(&p, Kind::File(crate::scen::Content::Bytes(format!("BK-{}-{}", ni, num)))).mtime(1_100_000_000, *num as u32 % 1000));
        }
    }
    Scenario::new(name, tree, &["-r", "-T", "--backup", mode, "--driver", d, "-w", "2", "--block-size", "4", "src", "dstdir"])
}

pub fn name_classes() -> Vec<(&'static str, Vec<&'static str>)> {
    vec![("plain", vec!["a"]), ("space", vec!["a b"]), ("prefix-pair", vec!["a", "ab"]), ("lookalike", vec!["x", "x.~1~"]), ("non-utf8", vec!["f\\xff.txt"]), ("non-utf8-pair", vec!["\\xfe", "\\xfe\\xff"])]
}

// ---------------------------------------------------------------------------------------------
// histories: sequences of copy steps onto one destination directory, against a history model

#[derive(Serialize, Deserialize, Clone, Debug)]
struct History {
    class: String,
    names: Vec<String>,
    /// (index into names, backup number) present before the first step
    pre: Vec<(usize, u64)>,
    modes: Vec<String>,
    driver: String,
}

#[derive(Serialize, Deserialize, Default)]
struct Acc {
    stats: Stats,
    histories: u64,
    steps: u64,
    violations: Vec<(String, serde_json::Value)>,
    errors: Vec<String>,
    samples: Vec<String>,
}

fn run_history(w: &Worker, h: &History, acc: &mut Acc) {
    let names: Vec<&str> = h.names.iter().map(|s| s.as_str()).collect();
    let first = step_scenario(&format!("history-{}-{}", h.class, h.driver), &names, &h.pre, &h.modes[0], &h.driver);
    let root = match w.prepare(&first) {
        Ok(r) => r,
        Err(e) => {
            acc.errors.push(e);
            return;
        }
    };
    // model state: every regular file in dstdir
    let mut state: BTreeMap<String, Vec<u8>> = initial_dst(&first);
    acc.histories += 1;
    for (k, mode) in h.modes.iter().enumerate() {
        // fresh source content for this step
        let mut newc: BTreeMap<String, Vec<u8>> = BTreeMap::new();
        for n in &h.names {
            let c = format!("v{}-{}", k + 1, n).into_bytes();
            let p = crate::util::join(&root, &unesc(&format!("src/{}", n)));
            if let Err(e) = std::fs::write(&p, &c) {
                acc.errors.push(format!("write {:?}: {}", p, e));
                return;
            }
            newc.insert(n.clone(), c);
        }
        let mut s = first.clone();
        let bi = s.args.iter().position(|a| a == "--backup").unwrap();
        s.args[bi + 1] = mode.clone();
        let before = w.snapshot(&s);
        let res = match w.exec(&s, &RunSpec::base(if k % 2 == 0 { Policy::P0 } else { Policy::P1 })) {
            Ok(r) => r,
            Err(e) => {
                acc.errors.push(format!("history {:?} step {}: {}", h, k, e));
                return;
            }
        };
        acc.steps += 1;
        acc.stats.execs += 1;
        acc.stats.decision_points += res.decisions.len();
        acc.stats.steps += res.steps;
        acc.stats.traces.insert(res.trace_hash());
        *acc.stats.exits.entry(res.outcome.short()).or_insert(0) += 1;
        let snap = w.snapshot(&s);
        let after: BTreeMap<String, Vec<u8>> = snap.iter().filter(|(p, n)| p.starts_with("dstdir/") && n.kind == 'f').map(|(p, n)| (p["dstdir/".len()..].to_string(), n.data.clone().unwrap_or_default())).collect();
        // expected state after this step
        let mut exp = state.clone();
        let mut overflow = false;
        for n in &h.names {
            let old = state.get(n).cloned();
            let nums: Vec<u64> = state.keys().filter_map(|c| backup_number(n, c)).collect();
            let wanted = old.is_some() && (mode == "numbered" || (mode == "auto" && !nums.is_empty()));
            if wanted {
                match nums.iter().max().cloned().unwrap_or(0).checked_add(1) {
                    Some(nn) => {
                        exp.insert(format!("{}.~{}~", n, nn), old.unwrap());
                    }
                    None => overflow = true,
                }
            }
            exp.insert(n.clone(), newc[n].clone());
        }
        // look-alike: a source named like a backup is overwritten with its own new content last
        for n in &h.names {
            exp.insert(n.clone(), newc[n].clone());
        }
        let mut msgs = vec![];
        let ok = res.outcome == crate::sup::Outcome::Exited(0);
        if ok && !overflow {
            if after != exp {
                for (kk, vv) in &exp {
                    match after.get(kk) {
                        None => msgs.push(format!("step {} ({}): {} is missing (expected {:?})", k + 1, mode, kk, String::from_utf8_lossy(vv))),
                        Some(a) if a != vv => msgs.push(format!("step {} ({}): {} holds {:?}, expected {:?}", k + 1, mode, kk, String::from_utf8_lossy(a), String::from_utf8_lossy(vv))),
                        _ => {}
                    }
                }
                for kk in after.keys() {
                    if !exp.contains_key(kk) {
                        msgs.push(format!("step {} ({}): unexpected {} ({:?})", k + 1, mode, kk, String::from_utf8_lossy(&after[kk])));
                    }
                }
            }
            state = exp;
        } else {
            if ok && overflow {
                msgs.push(format!("step {} ({}): exit 0 although the next backup number does not exist", k + 1, mode));
            }
            // failed step: nothing that had to be preserved may be lost, no existing backup modified
            for (kk, vv) in &state {
                let is_backup = h.names.iter().any(|n| backup_number(n, kk).is_some()) && !h.names.contains(kk);
                if is_backup {
                    if after.get(kk) != Some(vv) {
                        msgs.push(format!("failed step {} ({}): existing backup {} changed or vanished", k + 1, mode, kk));
                    }
                } else {
                    let nums: Vec<u64> = state.keys().filter_map(|c| backup_number(kk, c)).collect();
                    let wanted = mode == "numbered" || (mode == "auto" && !nums.is_empty());
                    if wanted && !after.iter().any(|(ak, av)| av == vv && (ak == kk || backup_number(kk, ak).is_some())) {
                        msgs.push(format!("failed step {} ({}): the previous content of {} is gone", k + 1, mode, kk));
                    }
                }
            }
            state = after.clone();
        }
        // existing backups keep their inode across every step
        for (p, b) in before.iter().filter(|(p, _)| p.starts_with("dstdir/")) {
            let nm = &p["dstdir/".len()..];
            let is_backup = h.names.iter().any(|n| backup_number(n, nm).is_some()) && !h.names.iter().any(|n| n == nm);
            if is_backup {
                if let Some(a) = snap.get(p) {
                    if a.ino != b.ino || a.hash != b.hash {
                        msgs.push(format!("step {} ({}): existing backup {} was replaced or rewritten", k + 1, mode, nm));
                    }
                }
            }
        }
        if !msgs.is_empty() {
            msgs.truncate(5);
            acc.violations.push((format!("history {} names={:?} pre={:?} modes={:?} driver={}: {}", h.class, h.names, h.pre, h.modes, h.driver, msgs[0]), json!({"history": h, "step": k + 1, "messages": msgs, "listing": after.iter().map(|(a, b)| format!("{} = {:?}", a, String::from_utf8_lossy(b))).collect::<Vec<_>>(), "trace": res.trace_lines()})));
            return;
        }
    }
    if acc.samples.len() < 3 {
        acc.samples.push(format!("history names={:?} pre={:?} modes={:?} driver={} -> {:?}", h.names, h.pre, h.modes, h.driver, state.keys().collect::<Vec<_>>()));
    }
}

pub fn run(ctx: &Ctx) -> Report {
    let mut rep = Report::new(
        "model_checking",
        "histories: every sequence of <= k copy steps, each choosing backup mode {none, auto, numbered} and fresh content, onto one destination directory x name classes {plain, with a space, prefix pair a+ab, look-alike x with x.~1~, non-UTF-8 bytes, non-UTF-8 prefix pair} x pre-existing backup numbers {none, {1}, {1,3}, {7}, {2^32}, {u64::MAX}} x both drivers, each step executed by the real binary and compared with a history model (old content preserved as <name>.~N~ with N above every existing number, existing backups keep inode and bytes, auto only when a backup exists); SIGKILL at every decision point of an overwrite step of each class; schedule search on the pair classes; non-trivial = distinct trace",
    );
    let q = ctx.quick();
    let maxsteps = if q { 3 } else { 4 };
    let mut seqs: Vec<Vec<String>> = vec![];
    fn rec(cur: &mut Vec<String>, depth: usize, out: &mut Vec<Vec<String>>) {
        if !cur.is_empty() {
            out.push(cur.clone());
        }
        if depth == 0 {
            return;
        }
        for m in ["none", "auto", "numbered"] {
            cur.push(m.to_string());
            rec(cur, depth - 1, out);
            cur.pop();
        }
    }
    rec(&mut vec![], maxsteps, &mut seqs);
    // only maximal sequences and their prefixes are distinct histories; prefixes are covered by the longer ones
    let seqs: Vec<Vec<String>> = seqs.into_iter().filter(|s| s.len() == maxsteps).collect();
    let presets: Vec<Vec<u64>> = vec![vec![], vec![1], vec![1, 3], vec![7], vec![4294967296], vec![u64::MAX]];
    let mut hs = vec![];
    for (cn, names) in name_classes() {
        for pre in &presets {
            for target in 0..names.len() {
                if cn == "lookalike" && pre.contains(&1) && target == 0 {
                    // x.~1~ is both a backup of x and a file being copied; keep the set but do not create it twice
                }
                for d in drivers() {
                    for s in &seqs {
                        hs.push(History { class: cn.to_string(), names: names.iter().map(|s| s.to_string()).collect(), pre: pre.iter().map(|n| (target, *n)).collect(), modes: s.clone(), driver: d.to_string() });
                    }
                }
                if pre.is_empty() {
                    break;
                }
            }
        }
    }
    let nh = hs.len();
    let accs = crate::explore::par_work(&ctx.pool, hs, Acc::default, |w, h: History, _more, acc: &mut Acc| run_history(w, &h, acc));
    let mut total = Stats::default();
    let mut samples = vec![];
    let mut nsteps = 0;
    for a in accs {
        nsteps += a.steps;
        rep.plain_violations.extend(a.violations);
        rep.machinery_errors.extend(a.errors);
        for s in a.samples {
            if samples.len() < 4 {
                samples.push(json!(s));
            }
        }
        total.merge(a.stats);
    }
    total.nontrivial_traces = total.traces.clone();
    total.samples = samples.iter().map(|s| s.as_str().unwrap_or("").to_string()).collect();
    rep.part("histories against the history model", total, json!({"histories": nh, "steps": nsteps, "max_steps": maxsteps}));
    // kill points and schedule search on a single overwrite step
    let j: Judge = &judge;
    let mut kill = vec![];
    let mut sched = vec![];
    for (cn, names) in name_classes() {
        for d in drivers() {
            for mode in ["numbered", "auto"] {
                let pre: Vec<(usize, u64)> = vec![(0, 1), (0, 3)];
                let s = step_scenario(&format!("overwrite-{}-{}-{}", cn, mode, d), &names, &pre, mode, d);
                kill.push(s.clone());
                if names.len() > 1 {
                    let s = Arc::new(s);
                    for b in base_specs() {
                        sched.push((s.clone(), b, if q { 1 } else { 2 }));
                    }
                }
            }
        }
    }
    // the same file name in two directories handled by two workers at once (per-directory state must not leak)
    {
        let mut jobs = vec![];
        // (parblock runs the whole backup step in its single dispatcher thread: only parfile has two threads in it)
        for (d, many) in if q { vec![("parfile", "a"), ("parfile", "b")] } else { vec![("parfile", "a"), ("parfile", "b"), ("parblock", "a"), ("parblock", "b")] } {
            // which directory is walked first is the file system's choice: the directory with the many (and higher)
            // backup numbers is `a` in one variant and `b` in the other
            let few = if many == "a" { "b" } else { "a" };
            let mut tree = vec![Entry::dir("src"), Entry::dir("src/a"), Entry::dir("src/b"), Entry::dir("dstdir"), Entry::dir("dstdir/a"), Entry::dir("dstdir/b")];
            tree.push(Entry::file("src/a/f", "NEW-a"));
            tree.push(Entry::file("src/b/f", "NEW-b"));
            tree.push(Entry::file("dstdir/a/f", "OLD-a").mtime(1_200_000_000, 1));
            tree.push(Entry::file("dstdir/b/f", "OLD-b").mtime(1_200_000_001, 1));
            for n in [1u32, 2, 3] {
                tree.push(Entry::file(&format!("dstdir/{}/f.~{}~", many, n), &format!("BK-{}-{}", many, n)).mtime(1_100_000_000, n));
            }
            tree.push(Entry::file(&format!("dstdir/{}/f.~1~", few), &format!("BK-{}-1", few)).mtime(1_100_000_001, 1));
            let mut s = Scenario::new(&format!("same-name-two-dirs-{}-many-in-{}", d, many), tree, &["-r", "-T", "--backup", "numbered", "--driver", d, "-w", "2", "src", "dstdir"]);
            if !sets::ATOMIC_AVAILABLE.load(std::sync::atomic::Ordering::Relaxed) {
                rep.extra.insert("atomic_grain".into(), json!("NOT RUN: the opt-level-1 build or its list of atomic instructions is unavailable"));
                continue;
            }
            s.prog = crate::scen::Prog::XcpAtomic;
            s.name.push_str("-atomic@atomicpoints");
            let s = Arc::new(s);
            for b in base_specs() {
                jobs.push((s.clone(), b, 2usize));
            }
        }
        let jt: Judge = &judge_two_dirs;
        let st = explore(&ctx.pool, jobs, jt);
        rep.part("one file name in two directories, two workers, at atomic grain, d<=2 with pre-emption at atomic instructions and markers", st, json!({"d": 2, "grain": "system calls, hook markers and the atomic instructions of xcp's own code"}));
    }
    let st = c03::kill_sweep(ctx, &kill, 0, j);
    rep.part("SIGKILL at every decision point of an overwrite step", st, json!({"scenarios": kill.len()}));
    let st = explore(&ctx.pool, sched, j);
    rep.part("schedule search on the pair classes (two workers scanning one directory)", st, json!({"d": if q { 1 } else { 2 }}));
    // failures while the backup is being arranged: listing the directory, probing, renaming
    {
        let w = Worker::new(145, &ctx.pool.bins);
        let mut jobs = vec![];
        let mut errs = vec![];
        let mut nsites = 0;
        for s in &kill {
            let sa = Arc::new(s.clone());
            let base = RunSpec::base(Policy::P0);
            let rec = match w.run(s, &base) {
                Ok(r) => r,
                Err(e) => {
                    errs.push(format!("recording run of {}: {}", s.name, e));
                    continue;
                }
            };
            let mut cnt: std::collections::BTreeMap<(usize, String), usize> = std::collections::BTreeMap::new();
            for e in &rec.events {
                let c = cnt.entry((e.th, e.name.clone())).or_insert(0);
                *c += 1;
                let on_dst = e.rel.as_deref().map(|r| r.starts_with("dstdir")).unwrap_or(false) || e.rel2.as_deref().map(|r| r.starts_with("dstdir")).unwrap_or(false);
                let errnos: Vec<i32> = match e.name.as_str() {
                    "getdents64" if on_dst => vec![libc::EIO],
                    "statx" | "newfstatat" if on_dst => vec![libc::EIO, libc::EACCES],
                    "rename" | "renameat" | "renameat2" => vec![libc::EACCES, libc::EIO],
                    "openat" if on_dst => vec![libc::EACCES, libc::EMFILE],
                    _ => vec![],
                };
                for en in errnos {
                    nsites += 1;
                    let mut sp = base.clone();
                    sp.faults.push(crate::sup::Fault { call: e.name.clone(), thread: Some(rec.threads[e.th].clone()), nth: Some(*c), path_contains: None, action: crate::sup::Action::Errno(en) });
                    jobs.push((sa.clone(), sp, 0usize));
                }
            }
        }
        let st = explore(&ctx.pool, jobs, j);
        rep.part("injected failures of getdents64 / statx / rename / open during an overwrite step", st, json!({"fault_runs": nsites}));
        rep.machinery_errors.extend(errs);
    }
    rep.assumptions = vec!["a backup number past u64::MAX cannot exist: the dev-profile build panics on the increment and exits non-zero with nothing lost, which the property tolerates".into()];
    rep
}
