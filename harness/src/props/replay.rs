//! `xv replay <file>`: re-execute one recorded execution twice, require identical traces, re-judge

use super::*;
use crate::explore::Exec;

pub fn judge_for(prop: &str) -> Option<fn(&Worker, &Scenario, &Exec) -> Judgement> {
    match prop {
        "C01" => Some(c01::judge),
        "C02" => Some(c02::judge),
        "C03" => Some(c03::judge),
        "C04" => Some(c04::judge),
        "C05" => Some(c05::judge),
        "C06" => Some(c06::judge),
        "C07" => Some(c07::judge),
        "C08" => Some(c08::judge),
        "C09" => Some(c09::judge),
        "C10" => Some(c10::judge),
        "C11" => Some(c11::judge),
        "C12" => Some(c12::judge),
        "C13" => Some(c13::judge),
        "C14" => Some(c14::judge),
        "C15" => Some(c15::judge),
        "C16" => Some(c16::judge),
        "C17" => Some(c17::judge),
        "C18" => Some(c18::judge),
        "C20" => Some(c20::judge),
        _ => None,
    }
}

pub fn replay(bins: &Bins, file: &str, _verif: &str) -> i32 {
    let txt = match std::fs::read_to_string(file) {
        Ok(t) => t,
        Err(e) => {
            eprintln!("cannot read {}: {}", file, e);
            return 2;
        }
    };
    let v: Value = match serde_json::from_str(&txt) {
        Ok(v) => v,
        Err(e) => {
            eprintln!("bad replay file: {}", e);
            return 2;
        }
    };
    let prop = v["property"].as_str().unwrap_or("").to_string();
    if v.get("scenario").is_none() {
        println!("replay file of an in-process enumeration: {}", v["verdict"]);
        println!("{}", serde_json::to_string_pretty(&v["detail"]).unwrap_or_default());
        return 1;
    }
    let scen: Scenario = serde_json::from_value(v["scenario"].clone()).expect("scenario");
    let spec: RunSpec = serde_json::from_value(v["spec"].clone()).expect("spec");
    let w = Worker::new(163, bins);
    let mut runs = vec![];
    for _ in 0..2 {
        let r = w.prepare(&scen).and_then(|_| {
            let before = w.snapshot(&scen);
            w.exec(&scen, &spec).map(|res| (before, res))
        });
        match r {
            Ok((before, res)) => {
                let snap = w.snapshot(&scen);
                runs.push(Exec { spec: spec.clone(), res, before, snap });
            }
            Err(e) => {
                eprintln!("MACHINERY ERROR during replay: {}", e);
                return 2;
            }
        }
    }
    if runs[0].res.trace_lines() != runs[1].res.trace_lines() {
        eprintln!("MACHINERY ERROR: the two replays produced different traces (nondeterminism not owned)");
        return 2;
    }
    let recorded: Vec<String> = v["trace"].as_array().map(|a| a.iter().filter_map(|x| x.as_str().map(|s| s.to_string())).collect()).unwrap_or_default();
    println!("scenario: {}", scen.cmdline());
    println!("spec: policy={:?} devs={:?} faults={:?} kill_at={:?}", spec.policy, spec.devs, spec.faults, spec.kill_at);
    for l in runs[0].res.trace_lines() {
        println!("  {}", l);
    }
    println!("outcome: {}", runs[0].res.outcome.short());
    for l in crate::scen::render(&runs[0].snap) {
        println!("  | {}", l);
    }
    if !recorded.is_empty() && recorded != runs[0].res.trace_lines() {
        println!("note: the trace differs from the recorded one (the code under test has changed since the violation was recorded)");
    }
    let jf = if prop == "C17" && scen.name.starts_with("gitignore-multi") {
        Some(c17::judge_multi as fn(&Worker, &Scenario, &Exec) -> Judgement)
    } else if prop == "C11" && scen.name.starts_with("first-source-without-fiemap") {
        Some(c11::judge_later_sources as fn(&Worker, &Scenario, &Exec) -> Judgement)
    } else if prop == "C09" && scen.name.starts_with("same-name-two-dirs") {
        Some(c09::judge_two_dirs as fn(&Worker, &Scenario, &Exec) -> Judgement)
    } else if prop == "C14" && scen.name.starts_with("same-target") { Some(c14::judge_same_target as fn(&Worker, &Scenario, &Exec) -> Judgement) } else { judge_for(&prop) };
    match jf {
        Some(j) => {
            let jd = j(&w, &scen, &runs[0]);
            if jd.violations.is_empty() {
                println!("verdict: property {} holds on this execution now", prop);
                0
            } else {
                for m in &jd.violations {
                    println!("verdict: {}", m);
                }
                println!("VIOLATION property={} replay={}", prop, file);
                1
            }
        }
        None => {
            println!("recorded verdict: {}", v["verdict"]);
            1
        }
    }
}
