//! C18 — --fsync flushes every destination file after its last write

use super::*;
use crate::explore::{explore, Judge};
use crate::model::{MKind, Origin};
use crate::monitor;
use crate::scen::Entry;
use crate::sup::{Action, Fault};
use std::sync::Arc;

pub fn copied_files(exp: &Expectation) -> Vec<String> {
    let mut v: Vec<String> = exp.mapped.iter().filter(|(_, t)| matches!(exp.tree.get(t), Some(n) if n.origin == Origin::Copied && matches!(n.kind, MKind::File(_)))).map(|(_, t)| t.clone()).collect();
    v.sort();
    v.dedup();
    v
}

pub fn judge(_w: &Worker, scen: &Scenario, ex: &Exec) -> Judgement {
    let exp = model::expect(scen);
    let mut v = vec![];
    if !exit0(ex) {
        if !ex.res.outcome.is_hang() {
            v.push(format!("valid copy with --fsync ends with {}", ex.res.outcome.short()));
        }
    } else {
        let files = copied_files(&exp);
        v.extend(monitor::fsync_after_last_write(&ex.res, &files));
    }
    simple_judge(v, ex, exit0(ex))
}

/// under an injected failure a non-zero exit is fine; exit 0 still promises a successful flush of every file
pub fn judge_faulted(_w: &Worker, scen: &Scenario, ex: &Exec) -> Judgement {
    let exp = model::expect(scen);
    let mut v = vec![];
    if exit0(ex) {
        v.extend(monitor::fsync_after_last_write(&ex.res, &copied_files(&exp)));
    }
    simple_judge(v, ex, ex.res.fault_hits.iter().any(|&h| h > 0))
}

fn extra_scenarios() -> Vec<(Scenario, Vec<Fault>)> {
    let mut out = vec![];
    for d in drivers() {
        let tree = vec![Entry::dir("src"), Entry::file("src/empty", ""), Entry::file("src/one", "x"), Entry::file("src/nine", "123456789")];
        let s = Scenario::new(&format!("fsync-empty-{}", d), tree.clone(), &["--fsync", "-r", "--driver", d, "-w", "2", "--block-size", "4", "src", "dst"]);
        out.push((s.clone(), vec![]));
        let mut s2 = s.clone();
        s2.name = format!("fsync-reflinked-{}", d);
        out.push((s2, vec![Fault { call: "ioctl:FICLONE".into(), thread: None, nth: None, path_contains: None, action: Action::EmulateOk }]));
        let mut s3 = s.clone();
        s3.name = format!("fsync-noprogress-{}", d);
        s3.args.insert(0, "--no-progress".into());
        out.push((s3, vec![]));
    }
    out
}

pub fn run(ctx: &Ctx) -> Report {
    let mut rep = Report::new("model_checking", "all executions of the real xcp binary (--fsync) with at most d scheduling deviations from base policies P0 and P1; oracle: in the totally ordered system-call trace every copied regular file has an fsync/fdatasync after its last write-class call (openat O_CREAT|O_TRUNC, ftruncate, copy_file_range, pwrite64, write, FICLONE); non-trivial = exited 0, counted per distinct trace");
    let j: Judge = &judge;
    for (name, jobs) in sets::schedule_jobs(ctx.quick(), &|s| if s.args.iter().any(|a| a == "--fsync") { s } else { sets::with_fsync(s) }) {
        let st = explore(&ctx.pool, jobs, j);
        rep.part(&name, st, serde_json::json!({"policies": ["P0", "P1"], "flag": "--fsync"}));
    }
    let mut jobs = vec![];
    for (s, faults) in extra_scenarios() {
        let s = Arc::new(s);
        for mut b in base_specs() {
            b.faults = faults.clone();
            jobs.push((s.clone(), b, if ctx.quick() { 1 } else { 2 }));
        }
    }
    let st = explore(&ctx.pool, jobs, j);
    rep.part("empty / one-byte / emulated-reflink / --no-progress files", st, serde_json::json!({"d": if ctx.quick() { 1 } else { 2 }}));
    // --fsync must not depend on which metadata is transferred
    let mut jobs = vec![];
    for d in drivers() {
        for np in [false, true] {
            for nt in [false, true] {
                for own in [false, true] {
                    let mut s = sets::tiny(d);
                    s.args.insert(0, "--fsync".into());
                    if np {
                        s.args.insert(0, "--no-perms".into());
                    }
                    if nt {
                        s.args.insert(0, "--no-timestamps".into());
                    }
                    if own {
                        s.args.insert(0, "--ownership".into());
                    }
                    s.name = format!("fsync-flags-{}{}{}-{}", np as u8, nt as u8, own as u8, d);
                    let s = Arc::new(s);
                    for b in base_specs() {
                        jobs.push((s.clone(), b, 1usize));
                    }
                }
            }
        }
    }
    let st = explore(&ctx.pool, jobs, j);
    rep.part("--fsync x {--no-perms, --no-timestamps, --ownership} product", st, serde_json::json!({"d": 1}));
    // one refused fsync: exit 0 still means that every file was flushed (a refused flush is not a flush), in
    // particular the files after the one that was refused
    {
        let jf: Judge = &judge_faulted;
        let w = Worker::new(142, &ctx.pool.bins);
        let mut jobs = vec![];
        let mut nsites = 0;
        for d in drivers() {
            for wn in ["1", "2"] {
                let tree = vec![Entry::dir("src"), Entry::file("src/a", "123456789"), Entry::file("src/b", "x"), Entry::file("src/c", ""), Entry::dir("src/d"), Entry::file("src/d/e", "abcdefghijk")];
                let s = Scenario::new(&format!("fsync-refused-{}-w{}", d, wn), tree, &["--fsync", "-r", "--driver", d, "-w", wn, "--block-size", "4", "src", "dst"]);
                let sa = Arc::new(s.clone());
                for base in base_specs() {
                    let rec = match w.run(&s, &base) {
                        Ok(r) => r,
                        Err(e) => {
                            rep.machinery_errors.push(format!("recording run of {}: {}", s.name, e));
                            continue;
                        }
                    };
                    for site in crate::explore::sites(&rec, &|e| e.name == "fsync" || e.name == "fdatasync") {
                        nsites += 1;
                        for en in [libc::EIO, libc::EINVAL, libc::ENOSYS, libc::EROFS, libc::ENOSPC] {
                            let mut sp = base.clone();
                            sp.faults.push(crate::explore::fault_at(&site, Action::Errno(en)));
                            jobs.push((sa.clone(), sp, 0usize));
                        }
                    }
                }
            }
        }
        let st = explore(&ctx.pool, jobs, jf);
        rep.part("one refused fsync (EIO, EINVAL, ENOSYS, EROFS, ENOSPC) at each fsync call of a five-file copy", st, serde_json::json!({"sites": nsites}));
    }
    rep.assumptions = vec![
        "fsync/fdatasync calls are recorded by the supervisor and answered 0 without reaching the disk (durability itself is the kernel's business)".into(),
        "pre-emption only at visible system calls and hook markers".into(),
    ];
    rep
}
