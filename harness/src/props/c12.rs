//! C12 (to be filled in)
use super::*;
pub fn run(_ctx: &Ctx) -> Report {
    let mut r = Report::new("model_checking", "not implemented");
    r.machinery_errors.push("C12 not implemented yet".into());
    r
}

pub fn api_jobs(_ctx: &Ctx, _termination_only: bool) -> Vec<(std::sync::Arc<Scenario>, RunSpec, usize)> {
    vec![]
}
