//! C12 — progress updates are truthful, never exceed 100%, and the stream ends

use super::*;
use crate::explore::{explore, Judge};
use crate::scen::{Content, Entry, Kind, Prog};
use crate::sup::{Action, Fault};
use std::sync::Arc;

/// the xcp invocation equivalent to an apiprobe copy (for the reference tree)
fn equivalent(scen: &Scenario) -> Scenario {
    // apiprobe copy <driver> <workers> <bsize> <updater> <dest> <src>...
    let a = &scen.args;
    let mut args: Vec<String> = vec!["-r".into(), "--driver".into(), a[1].clone(), "--no-progress".into()];
    args.extend(a[6..].iter().cloned());
    args.push(a[5].clone());
    let mut s = scen.clone();
    s.prog = Prog::Xcp;
    s.args = args;
    s
}

pub fn judge(w: &Worker, scen: &Scenario, ex: &Exec) -> Judgement {
    let mut v = vec![];
    let out = String::from_utf8_lossy(&ex.res.stdout).to_string();
    let mode = scen.args[4].as_str();
    let exp = model::expect(&equivalent(scen));
    if ex.res.outcome.is_hang() {
        v.push(format!("the library client never finishes: {}", ex.res.outcome.short()));
        return simple_judge(v, ex, true);
    }
    let returned = out.lines().find(|l| l.starts_with("COPY-RETURNED")).map(|l| l.to_string());
    if returned.is_none() {
        v.push("copy() did not return".into());
    }
    if mode == "chan" && !out.contains("CHANNEL-CLOSED") {
        v.push("the update channel did not close".into());
    }
    let ret_ok = returned.as_deref() == Some("COPY-RETURNED ok");
    let upds: Vec<&str> = out.lines().filter_map(|l| l.strip_prefix("UPD ")).collect();
    let mut size_sum: u64 = 0;
    let mut copied_sum: u64 = 0;
    let mut saw_error = false;
    for u in &upds {
        if let Some(n) = u.strip_prefix('S') {
            size_sum += n.parse::<u64>().unwrap_or(0);
        } else if let Some(n) = u.strip_prefix('C') {
            copied_sum += n.parse::<u64>().unwrap_or(0);
            if copied_sum > size_sum {
                v.push(format!("after update {:?} the client has been told {} bytes copied but only {} announced (more than 100%)", u, copied_sum, size_sum));
                break;
            }
        } else if u.starts_with('E') {
            saw_error = true;
        }
    }
    // against the bytes really moved so far (trace order): markers are emitted at delivery time
    let mut moved: u64 = 0;
    let mut told: u64 = 0;
    for e in &ex.res.events {
        if e.is_data_move() && e.ret > 0 {
            if let Some((_, rel)) = e.write_target() {
                if rel.starts_with("dst") {
                    moved += e.ret as u64;
                }
            }
        }
        if e.name == "ioctl:FICLONE" && e.ret == 0 {
            // a successful clone transfers the whole file at once
            if let Some(src) = &e.rel {
                if let Some(en) = scen.tree.iter().find(|t| &t.path == src).and_then(|t| t.content()) {
                    moved += en.len();
                }
            }
        }
        if e.name == "MARK" {
            if let Some(p) = &e.path {
                let tag = p.strip_prefix("upd/C").or_else(|| p.strip_prefix("rcv/C"));
                if let Some(n) = tag {
                    told += n.parse::<u64>().unwrap_or(0);
                    if told > moved {
                        v.push(format!("update Copied({}) delivered when only {} bytes had been transferred (told {} so far)", n, moved, told));
                        break;
                    }
                }
            }
        }
    }
    if copied_sum > moved {
        v.push(format!("updates report {} bytes copied in total, {} were transferred", copied_sum, moved));
    }
    let faulted = !ex.res.hit_sites.is_empty();
    if ret_ok && !saw_error && mode != "noop" {
        if size_sum != exp.total_len {
            v.push(format!("announced sizes sum to {} but the selected regular files total {}", size_sum, exp.total_len));
        }
    }
    // an incomplete destination must have been signalled
    if returned.is_some() {
        let root = w.root(scen.fs);
        let diffs = model::compare(&exp, &ex.snap, &root, Level::Content, run_start_secs());
        if !diffs.is_empty() && ret_ok && !saw_error && mode != "noop" {
            v.push(format!("destination incomplete ({}) but no Error update was delivered and copy() returned Ok", diffs[0]));
        }
        // With the NoopUpdater an Error update handed to the updater is discarded by construction and cannot
        // be observed from outside; the property is satisfied by the hand-over, so nothing is demanded there.
        if diffs.is_empty() && !faulted && !ret_ok {
            v.push(format!("valid copy but {}", returned.clone().unwrap_or_default()));
        }
    }
    v.truncate(6);
    let mut j = simple_judge(v, ex, upds.len() > 1 || mode == "noop");
    j.outcome_key = format!("{} upd={}", ex.res.outcome.short(), upds.join(","));
    j
}

fn trees(b: u64) -> Vec<(String, Vec<Entry>, u64)> {
    let bb = if b > 64 { 4 } else { b };
    vec![
        ("three".into(), vec![Entry::dir("src"), Entry::file("src/z", ""), Entry::gen("src/o", 1, 1), Entry::gen("src/p", bb + 1, 2)], 0),
        ("two".into(), vec![Entry::dir("src"), Entry::gen("src/t", 3 * bb, 3), Entry::gen("src/p", bb + 1, 2)], 0),
        ("sparse".into(), vec![Entry::dir("src"), Entry::new("src/s", Kind::File(Content::Layout { unit: 4096, units: vec![true, false, true], tail: 0, seed: 4 })), Entry::gen("src/o", 1, 1)], 0),
    ]
}

pub fn api_jobs(ctx: &Ctx, termination_only: bool) -> Vec<(Arc<Scenario>, RunSpec, usize)> {
    let q = ctx.quick();
    let mut out = vec![];
    let d_sched = if termination_only { 1 } else if q { 1 } else { 2 };
    for d in drivers() {
        for (bn, b) in [("1", 1u64), ("4", 4), ("max", u64::MAX)] {
            for w in if q { vec!["2"] } else { vec!["1", "2"] } {
                for upd in ["chan", "rec", "noop"] {
                    for (tn, tree, _) in trees(b) {
                        if tn == "sparse" && bn == "1" {
                            continue; // 8192 one-byte blocks: nothing new, only slow
                        }
                        if termination_only && (tn != "two" || bn == "1") {
                            continue;
                        }
                        let mut s = Scenario::new(&format!("api-{}-{}-B{}-w{}-{}", tn, d, bn, w, upd), tree, &["copy", d, w, bn, upd, "dst", "src"]);
                        s.prog = Prog::ApiProbe;
                        let s = Arc::new(s);
                        for base in base_specs() {
                            let deep = if tn == "sparse" || bn == "1" { 0 } else { d_sched };
                            out.push((s.clone(), base.clone(), deep));
                            if tn == "two" && bn != "1" {
                                // faults: the last clause (incomplete destination => Error update or Err), and termination
                                for nth in 1..=3 {
                                    let mut sp = base.clone();
                                    sp.faults.push(Fault { call: "copy_file_range".into(), thread: None, nth: Some(nth), path_contains: None, action: Action::Errno(libc::EIO) });
                                    out.push((s.clone(), sp, if q { 0 } else { 1 }));
                                }
                                for nth in 1..=2 {
                                    let mut sp = base.clone();
                                    sp.faults.push(Fault { call: "openat".into(), thread: None, nth: Some(nth), path_contains: Some("dst/".into()), action: Action::Errno(libc::EACCES) });
                                    out.push((s.clone(), sp, if q { 0 } else { 1 }));
                                }
                                let mut sp = base.clone();
                                sp.faults.push(Fault { call: "ioctl:FICLONE".into(), thread: None, nth: None, path_contains: None, action: Action::EmulateOk });
                                out.push((s.clone(), sp, 0));
                                let mut sp = base.clone();
                                sp.faults.push(Fault { call: "mkdir".into(), thread: None, nth: Some(1), path_contains: None, action: Action::Errno(libc::EACCES) });
                                out.push((s.clone(), sp, 0));
                            }
                        }
                    }
                }
            }
        }
    }
    out
}

pub fn run(ctx: &Ctx) -> Report {
    let mut rep = Report::new(
        "model_checking",
        "apiprobe (a library client linked against /repo/libxcp) explored under xsup like the CLI: trees of 2-3 files with sizes {0,1,B+1,3B} and a sparse file x block sizes {1,4,u64::MAX} x both drivers x workers x updater {ChannelUpdater drained by the client, client-supplied recording updater, NoopUpdater}; all executions with <= d scheduling deviations (hook markers give pre-emption points between the walker's Size update and its queue send, inside ChannelUpdater::send and before each Copied update); single injected failures and emulated clone success; oracle on the delivered sequence: sizes sum to the total length, in every prefix copied <= announced, at each delivery copied <= bytes the trace shows as transferred so far, the channel closes and copy() returns, an incomplete destination implies an Error update or Err; non-trivial = more than one update delivered, per distinct trace",
    );
    if ctx.pool.bins.apiprobe.is_empty() {
        rep.machinery_errors.push("apiprobe not built".into());
        return rep;
    }
    let j: Judge = &judge;
    let jobs = api_jobs(ctx, false);
    let n = jobs.len();
    let st = explore(&ctx.pool, jobs, j);
    rep.part("library client under schedule search and single faults", st, serde_json::json!({"base_jobs": n}));
    // short counts: what is reported must be what was transferred
    {
        let w = Worker::new(143, &ctx.pool.bins);
        let mut errs = vec![];
        let mut jobs = vec![];
        for d in drivers() {
            for bn in ["4", "max"] {
                for upd in ["chan", "rec"] {
                    let (_, tree, _) = trees(4).into_iter().nth(1).unwrap();
                    let mut s = Scenario::new(&format!("api-short-{}-B{}-{}", d, bn, upd), tree, &["copy", d, "2", bn, upd, "dst", "src"]);
                    s.prog = Prog::ApiProbe;
                    jobs.extend(c05::clamp_jobs(&w, &s, &[], &|req| (1..req).collect(), false, &mut errs));
                    for c in [1u64, 3] {
                        let mut sp = RunSpec::base(Policy::P0);
                        sp.step_limit = c05::STEP_LIMIT;
                        sp.faults.push(Fault { call: "DATA".into(), thread: None, nth: None, path_contains: None, action: Action::Clamp(c) });
                        jobs.push((Arc::new(s.clone()), sp, 0));
                    }
                }
            }
        }
        // optional kernel facilities absent: whatever path is taken instead must still tell the truth
        for d in drivers() {
            for upd in ["chan", "rec"] {
                for (tn, tree, _) in trees(4096) {
                    let mut s = Scenario::new(&format!("api-absent-{}-{}-{}", tn, d, upd), tree, &["copy", d, "2", "4096", upd, "dst", "src"]);
                    s.prog = Prog::ApiProbe;
                    let s = Arc::new(s);
                    for (call, en) in [("ioctl:FIEMAP", libc::EOPNOTSUPP), ("copy_file_range", libc::ENOSYS), ("copy_file_range", libc::EXDEV), ("lseek:DATA", libc::EINVAL), ("lseek:HOLE", libc::EINVAL)] {
                        let mut sp = RunSpec::base(Policy::P0);
                        sp.faults.push(Fault { call: call.into(), thread: None, nth: None, path_contains: None, action: Action::Errno(en) });
                        jobs.push((s.clone(), sp, 0));
                    }
                    // one hole-seeking call refused, the later ones answered
                    for call in ["lseek:DATA", "lseek:HOLE"] {
                        for nth in 1..=3 {
                            let mut sp = RunSpec::base(Policy::P0);
                            sp.faults.push(Fault { call: call.into(), thread: None, nth: Some(nth), path_contains: None, action: Action::Errno(libc::EINVAL) });
                            jobs.push((s.clone(), sp, 0));
                        }
                    }
                }
            }
        }
        let st = explore(&ctx.pool, jobs, j);
        rep.part("every legal short count at every data-moving call, small-kernel runs, FIEMAP / copy_file_range / SEEK_DATA / SEEK_HOLE unsupported", st, serde_json::json!({}));
        rep.machinery_errors.extend(errs);
    }
    rep.assumptions = vec!["updates are ordered against data-moving calls through marker calls emitted by the client at delivery time (the trace is a total order)".into()];
    rep
}
