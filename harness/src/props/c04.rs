//! C04 — no silent failure: a failed step always yields a non-zero exit

use super::*;
use crate::explore::{explore, sites, Judge};
use crate::scen::{Entry, Kind};
use crate::sup::{Action, Ev, Fault};
use std::sync::Arc;

pub fn tree_src() -> Vec<Entry> {
    vec![
        Entry::dir("src"),
        Entry::gen("src/big", 10000, 12).mode(0o640).mtime(1_300_000_000, 11),
        Entry::file("src/small", "xy").mode(0o755).mtime(1_300_000_001, 22),
        Entry::dir("src/d"),
        Entry::file("src/d/n", "nested").mode(0o600).mtime(1_300_000_002, 33),
        Entry::link("src/l", "small"),
        Entry::new("src/p", Kind::Fifo).mode(0o644),
        // every kind of regular file takes its own path through the drivers: empty, one byte, sparse
        Entry::dir("src/emptyd"),
        Entry::dir("src/d/emptyd2"),
        Entry::file("src/empty", "").mode(0o604).mtime(1_300_000_003, 44),
        Entry::file("src/one", "1").mode(0o606).mtime(1_300_000_004, 55),
        Entry::new("src/sparse", Kind::File(crate::scen::Content::Layout { unit: 4096, units: vec![true, false, true], tail: 0, seed: 9 })).mode(0o660).mtime(1_300_000_005, 66),
    ]
}

pub fn scenarios(quick: bool) -> Vec<Scenario> {
    let mut v = vec![];
    for d in drivers() {
        for w in if quick { vec![2] } else { vec![1, 2] } {
            let ws = w.to_string();
            v.push(Scenario::new(&format!("C04-fresh-{}-w{}", d, w), tree_src(), &["-r", "--fsync", "--driver", d, "-w", &ws, "--block-size", "4096", "src", "dst"]));
            let mut t = tree_src();
            t.extend(vec![
                Entry::dir("dst"),
                Entry::file("dst/big", "OLDBIG-OLDBIG-OLDBIG").mode(0o600).mtime(1_200_000_000, 1),
                Entry::file("dst/big.~2~", "older").mtime(1_100_000_000, 2),
                Entry::file("dst/keep", "bystander").mtime(1_200_000_002, 3),
                Entry::dir("dst/d"),
                Entry::file("dst/d/n", "old nested").mtime(1_200_000_003, 4),
            ]);
            v.push(Scenario::new(&format!("C04-reflinked-{}-w{}", d, w), tree_src(), &["-r", "--fsync", "--driver", d, "-w", &ws, "--block-size", "4096", "src", "dst"]));
            // one scenario per option family: each brings system calls of its own
            let links = vec![
                Entry::dir("outside"),
                Entry::file("outside/o", "outside content"),
                Entry::dir("src"),
                Entry::file("src/t", "target").mtime(1_300_000_000, 1),
                Entry::dir("src/rd"),
                Entry::file("src/rd/x", "x in rd").mtime(1_300_000_001, 2),
                Entry::link("src/lf", "t"),
                Entry::link("src/ld", "rd"),
                Entry::link("src/lo", "../outside/o"),
                Entry::link("src/c0", "c1"),
                Entry::link("src/c1", "t"),
            ];
            v.push(Scenario::new(&format!("C04-deref-{}-w{}", d, w), links, &["-r", "-L", "--driver", d, "-w", &ws, "src", "dst"]));
            let gi = vec![
                Entry::dir("src"),
                Entry::file("src/.gitignore", "d/\x0a*.txt\x0a!keep.txt\x0a"),
                Entry::file("src/a", "a"),
                Entry::file("src/a.txt", "ignored"),
                Entry::file("src/keep.txt", "kept"),
                Entry::dir("src/d"),
                Entry::file("src/d/x", "ignored with its directory"),
                Entry::dir("src/e"),
                Entry::file("src/e/y.txt", "ignored"),
                Entry::file("src/e/z", "kept"),
            ];
            v.push(Scenario::new(&format!("C04-gitignore-{}-w{}", d, w), gi, &["-r", "--gitignore", "--driver", d, "-w", &ws, "src", "dst"]));
            let gl = vec![Entry::file("s1", "one"), Entry::file("s2", "two"), Entry::dir("sd"), Entry::file("sd/in", "inside"), Entry::file("other", "not selected"), Entry::dir("dst")];
            v.push(Scenario::new(&format!("C04-glob-{}-w{}", d, w), gl, &["-r", "-g", "--driver", d, "-w", &ws, "s?", "sd*", "dst"]));
            v.push(Scenario::new(&format!("C04-noprogress-{}-w{}", d, w), tree_src(), &["-r", "--no-progress", "--fsync", "--driver", d, "-w", &ws, "src", "dst"]));
            v.push(Scenario::new(&format!("C04-oneworker-{}-w{}", d, w), tree_src(), &["-r", "--driver", d, "-w", "1", "--block-size", "4096", "src", "dst"]));
            let mut nc = tree_src();
            nc.push(Entry::dir("dst"));
            nc.push(Entry::file("dst/unrelated", "bystander").mtime(1_200_000_000, 1));
            v.push(Scenario::new(&format!("C04-noclobber-{}-w{}", d, w), nc, &["-r", "-n", "--no-perms", "--driver", d, "-w", &ws, "--block-size", "4096", "src", "dst"]));
            let mut ow = tree_src();
            for e in ow.iter_mut() {
                if e.content().is_some() {
                    e.owner = Some((1000, 4242));
                }
            }
            ow.push(Entry::dir("dst"));
            ow.push(Entry::file("dst/big", "older").mtime(1_200_000_000, 1));
            ow.push(Entry::file("dst/big.~7~", "oldest").mtime(1_100_000_000, 1));
            v.push(Scenario::new(&format!("C04-ownership-auto-backup-{}-w{}", d, w), ow, &["-r", "-T", "--ownership", "--no-timestamps", "--backup", "auto", "--driver", d, "-w", &ws, "--block-size", "4096", "src", "dst"]));
            v.push(Scenario::new(&format!("C04-populated-{}-w{}", d, w), t, &["-r", "-T", "--fsync", "--backup", "numbered", "--driver", d, "-w", &ws, "--block-size", "4096", "src", "dst"]));
        }
    }
    v
}

/// errnos injected per call class (DESIGN 5, C04); None = the property tolerates failures there
pub fn errnos_for(e: &Ev) -> Vec<i32> {
    use libc::*;
    match e.name.as_str() {
        "openat" | "open" | "creat" | "openat2" => {
            let flags = if e.name == "open" { e.a[1] } else { e.a[2] } as i32;
            if flags & (O_CREAT | O_WRONLY | O_RDWR) != 0 {
                vec![EACCES, EMFILE, EROFS]
            } else {
                // a source entry that vanished between being listed and being opened: ENOENT is then not "absent, go
                // on" but a lost source (a destination probe answered ENOENT would be indistinguishable from a truly
                // absent entry, and a missing .gitignore is legitimate, so only sources, and not that file)
                let rel = e.rel.as_deref().unwrap_or("");
                if (rel == "src" || rel.starts_with("src/")) && !rel.ends_with(".gitignore") {
                    vec![EACCES, EMFILE, ENOENT]
                } else {
                    vec![EACCES, EMFILE]
                }
            }
        }
        "statx" | "newfstatat" | "fstat" | "stat" | "lstat" => vec![EACCES, EIO],
        "getdents64" => vec![EIO],
        "mkdir" | "mkdirat" => vec![EACCES, ENOSPC, EROFS, EEXIST],
        "symlink" | "symlinkat" => vec![EEXIST, EACCES],
        "mknod" | "mknodat" => vec![EPERM],
        "rename" | "renameat" | "renameat2" => vec![EACCES],
        "unlink" | "unlinkat" => vec![EACCES],
        "ftruncate" | "fallocate" => vec![ENOSPC, EIO],
        "copy_file_range" | "sendfile" => vec![EIO],
        "read" | "pread64" => vec![EIO],
        "write" | "pwrite64" => vec![ENOSPC, EIO],
        "fchmod" | "fchmodat" | "chmod" => vec![EPERM],
        "utimensat" => vec![EPERM],
        "fsync" | "fdatasync" => vec![EIO, EINVAL],
        "ioctl:FIEMAP" | "ioctl:FICLONE" => vec![EIO],
        "readlink" | "readlinkat" => vec![EACCES, EIO],
        "lseek" => vec![EIO],
        // EINVAL is what a file system without hole seeking answers
        "lseek:DATA" | "lseek:HOLE" => vec![EIO, EINVAL],
        // xattr and ownership failures are documented as warnings
        _ => vec![],
    }
}

pub fn judge(w: &Worker, scen: &Scenario, ex: &Exec) -> Judgement {
    let exp = if scen.args.iter().any(|a| a == "--gitignore") {
        match c17::git_ignored(w, scen) {
            Ok(ig) => model::expect_cfg(scen, &model::ModelCfg { git_ignored: Some(&ig) }),
            Err(e) => return Judgement { violations: vec![], outcome_key: format!("ORACLE-ERROR {}", e), nontrivial: false },
        }
    } else {
        model::expect(scen)
    };
    let mut v = vec![];
    let hit = !ex.res.hit_sites.is_empty();
    if exit0(ex) {
        let failed = ex.res.hit_sites.join(", ");
        if ex.res.hit_sites.iter().any(|h| h.starts_with("fsync") || h.starts_with("fdatasync")) {
            v.push(format!("exit 0 although the requested fsync failed ({})", failed));
        }
        for m in judge_exit0_tree(w, scen, ex, &exp, Level::Meta) {
            // a failure while copying ownership is documented as a warning and tolerated by the property
            if hit && m.starts_with("exit 0 but owner of") {
                continue;
            }
            v.push(if hit { format!("{} [after injected failure of {}]", m, failed) } else { m });
        }
    }
    simple_judge(v, ex, hit || exit0(ex))
}

/// jobs: one execution per (site, errno) of each recording run
pub fn fault_jobs(ctx: &Ctx, scens: &[Scenario]) -> (Vec<(Arc<Scenario>, RunSpec, usize)>, usize, Vec<String>) {
    let w = Worker::new(148, &ctx.pool.bins);
    let mut jobs = vec![];
    let mut nsites = 0;
    let mut errs = vec![];
    for s in scens {
        let sa = Arc::new(s.clone());
        for mut base in base_specs() {
            if s.name.contains("reflinked") {
                base.faults.push(Fault { call: "ioctl:FICLONE".into(), thread: None, nth: None, path_contains: None, action: Action::EmulateOk });
            }
            let rec = match w.run(s, &base) {
                Ok(r) => r,
                Err(e) => {
                    errs.push(format!("recording run of {}: {}", s.name, e));
                    continue;
                }
            };
            // the unfaulted run itself
            jobs.push((sa.clone(), base.clone(), 0));
            for e in rec.events.iter() {
                let _ = e;
            }
            let all = sites(&rec, &|_| true);
            // per-site errno list needs the event: recompute alongside
            let mut cnt: std::collections::BTreeMap<(usize, String), usize> = std::collections::BTreeMap::new();
            for e in &rec.events {
                if matches!(e.name.as_str(), "SPAWN" | "DEAD" | "BLOCK" | "WAKE" | "MARK" | "exit_group" | "exit" | "clone" | "clone3") {
                    continue;
                }
                let c = cnt.entry((e.th, e.name.clone())).or_insert(0);
                *c += 1;
                let errnos = errnos_for(e);
                if errnos.is_empty() {
                    continue;
                }
                nsites += 1;
                for en in errnos {
                    let mut sp = base.clone();
                    sp.faults.push(Fault { call: e.name.clone(), thread: Some(rec.threads[e.th].clone()), nth: Some(*c), path_contains: None, action: Action::Errno(en) });
                    jobs.push((sa.clone(), sp, 0));
                }
            }
            let _ = all;
        }
    }
    (jobs, nsites, errs)
}

/// every single fault of the site list, optionally with scheduling deviations on top; used by C03/C04/C07
pub fn fault_sweep(ctx: &Ctx, judge: Judge, devs_on_top: usize) -> (Stats, usize) {
    let scens = scenarios(ctx.quick());
    let (mut jobs, nsites, errs) = fault_jobs(ctx, &scens);
    if devs_on_top > 0 {
        // deviations on top only for the w=2 fresh-destination scenarios (cost)
        for j in jobs.iter_mut() {
            if j.0.name.contains("fresh") && j.0.name.ends_with("w2") {
                j.2 = devs_on_top;
            }
        }
    }
    let mut st = explore(&ctx.pool, jobs, judge);
    st.engine_errors.extend(errs);
    (st, nsites)
}

/// second faults at sites after the first one, read off the run that contains the first
fn pair_jobs(ctx: &Ctx, firsts: Vec<(Arc<Scenario>, RunSpec, usize)>) -> Stats {
    let j: Judge = &judge;
    let pool = &ctx.pool;
    let accs = crate::explore::par_work(pool, firsts, Stats::default, |w, (scen, spec, depth): (Arc<Scenario>, RunSpec, usize), more, st: &mut Stats| {
        if pool.expired() {
            st.capped = true;
            return;
        }
        if let Some(ex) = crate::explore::run_one(w, &scen, &spec, j, st) {
            if depth == 0 && spec.faults.len() == 1 {
                // find where the first fault fired, enumerate later sites
                let first_pos = ex.res.events.iter().position(|e| e.inj != 0);
                if let Some(fp) = first_pos {
                    let mut cnt: std::collections::BTreeMap<(usize, String), usize> = std::collections::BTreeMap::new();
                    for (k, e) in ex.res.events.iter().enumerate() {
                        if matches!(e.name.as_str(), "SPAWN" | "DEAD" | "BLOCK" | "WAKE" | "MARK" | "exit_group" | "exit" | "clone" | "clone3") {
                            continue;
                        }
                        let c = cnt.entry((e.th, e.name.clone())).or_insert(0);
                        *c += 1;
                        if k <= fp {
                            continue;
                        }
                        for en in errnos_for(e) {
                            let mut sp = spec.clone();
                            sp.faults.push(Fault { call: e.name.clone(), thread: Some(ex.res.threads[e.th].clone()), nth: Some(*c), path_contains: None, action: Action::Errno(en) });
                            more.push((scen.clone(), sp, 1));
                        }
                    }
                }
            }
        }
    });
    let mut total = Stats::default();
    for a in accs {
        total.merge(a);
    }
    total
}

pub fn run(ctx: &Ctx) -> Report {
    let mut rep = Report::new(
        "fault_enumeration",
        "a recording run under each base policy lists every visible system call (site = thread path id, call, per-thread ordinal); one execution of the real binary per (site, errno) with the errno classes of DESIGN C04; thorough adds every ordered pair of faults and every single fault x one scheduling deviation; oracle: exit != 0, or the final sandbox equals the reference tree incl. mode/mtime (and no fsync failed); non-trivial = the injected failure was reached, counted per distinct trace",
    );
    let j: Judge = &judge;
    let (st, nsites) = fault_sweep(ctx, j, 0);
    rep.part("single faults", st, serde_json::json!({"sites": nsites, "scenarios": scenarios(ctx.quick()).iter().map(|s| s.name.clone()).collect::<Vec<_>>()}));
    // who finalises a multi-block file depends on the schedule: finalisation failures x scheduling deviations
    {
        let mut scens = vec![];
        for d in drivers() {
            let mut s = sets::tiny(d);
            s.args.insert(0, "--fsync".into());
            s.name = format!("C04-finalise-tiny-{}", d);
            scens.push(s);
        }
        let mut s = sets::s2(2, 4);
        s.args.insert(0, "--fsync".into());
        s.name = "C04-finalise-S2".into();
        scens.push(s);
        let (jobs, _, errs) = fault_jobs(ctx, &scens);
        let dd = if ctx.quick() { 1 } else { 2 };
        let jobs: Vec<_> = jobs
            .into_iter()
            .filter(|j| j.1.faults.iter().any(|f| matches!(f.call.as_str(), "fchmod" | "utimensat" | "fsync")))
            .map(|mut j| {
                j.2 = dd;
                j
            })
            .collect();
        let n = jobs.len();
        let mut st = explore(&ctx.pool, jobs, j);
        st.engine_errors.extend(errs);
        rep.part("finalisation failures (fchmod / utimensat / fsync) x scheduling deviations on multi-block files", st, serde_json::json!({"fault_runs": n, "d": dd}));
    }
    // the report of a failure must get through however busy the status channel is and however long its consumer
    // (the main thread) does not run: a failing block job after 150 files, main starved, and any wait with a
    // timeout on the way allowed to expire first (no such wait exists in the tree as it is: one execution each)
    {
        let mut jobs = vec![];
        for d in drivers() {
            let mut tree = vec![Entry::dir("src")];
            for i in 0..150 {
                tree.push(Entry::file(&format!("src/f{:03}", i), "x"));
            }
            tree.push(Entry::file("src/zz-last", "0123456789"));
            let s = Arc::new(Scenario::new(&format!("error-after-150-files-main-starved-{}@timerpoints@afterfault", d), tree, &["-r", "--driver", d, "-w", "2", "--block-size", "4", "src", "dst"]));
            let order: Vec<String> = if d == "parfile" { vec!["0.1.1".into(), "0.1.2".into(), "0.1.3".into(), "0.1".into(), "0".into()] } else { vec!["0.1.2".into(), "0.1.1".into(), "0.1.1.*".into(), "0.1".into(), "0".into()] };
            for pol in [Policy::Prio(order.clone()), Policy::PrioEager(order.clone())] {
                // the first and the second file to be copied (the walker is 128 updates ahead by then), and one at the end
                for (call, en, nth, pc) in [("copy_file_range", libc::EIO, Some(1), None), ("copy_file_range", libc::EIO, Some(2), None), ("fchmod", libc::EPERM, Some(1), None), ("copy_file_range", libc::EIO, None, Some("zz-last".to_string()))] {
                    let mut sp = RunSpec::base(pol.clone());
                    sp.step_limit = 3_000_000;
                    sp.faults.push(Fault { call: call.into(), thread: None, nth, path_contains: pc, action: Action::Errno(en) });
                    jobs.push((s.clone(), sp, 1usize));
                }
            }
        }
        let st = explore(&ctx.pool, jobs, j);
        rep.part("a failing step after 150 files while the main thread is starved; timed waits may expire first", st, serde_json::json!({}));
    }
    if !ctx.quick() {
        let (jobs, _, _) = fault_jobs(ctx, &scenarios(false));
        let firsts: Vec<_> = jobs.into_iter().filter(|j| j.1.faults.len() == 1).collect();
        let n = firsts.len();
        let st = pair_jobs(ctx, firsts);
        rep.part("ordered pairs of faults", st, serde_json::json!({"first_faults": n}));
        let (st, _) = fault_sweep(ctx, j, 1);
        rep.part("single faults x one scheduling deviation (fresh destination, w=2)", st, serde_json::json!({"d": 1}));
    }
    rep.assumptions = vec![
        "faults are answered by the supervisor without executing the call (-errno); xattr and fchown failures are excluded because the property tolerates them".into(),
        "sites are those of the base-policy executions (P0, P1); other schedules issue the same calls in another order".into(),
    ];
    rep
}
