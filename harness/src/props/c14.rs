//! C14 — FIFOs, sockets and character devices are recreated as identical nodes

use super::*;
use crate::explore::Judge;
use crate::monitor;
use crate::scen::{Entry, Kind};

pub fn judge(w: &Worker, scen: &Scenario, ex: &Exec) -> Judgement {
    let exp = model::expect(scen);
    let mut v = vec![];
    if let Some(why) = &exp.must_fail {
        if exit0(ex) {
            v.push(format!("exit 0 although {}", why));
        }
    }
    v.extend(judge_exit0_tree(w, scen, ex, &exp, Level::Meta));
    v.extend(model::untouched(&exp, &ex.before, &ex.snap));
    v.extend(monitor::opened_or_read(&ex.res, &c07::special_sources(scen)));
    v.truncate(8);
    simple_judge(v, ex, exit0(ex))
}

/// two special sources with the same basename into one directory under -n: whichever is created first must
/// stay, the run must fail, nothing is ever unlinked
pub fn judge_same_target(_w: &Worker, _scen: &Scenario, ex: &Exec) -> Judgement {
    let mut v = vec![];
    if exit0(ex) {
        v.push("exit 0 although the second node maps onto an entry that exists by the time it is handled (-n)".into());
    }
    for e in &ex.res.events {
        if matches!(e.name.as_str(), "unlink" | "unlinkat" | "rename" | "renameat" | "renameat2") && e.ret == 0 && e.rel.as_deref().map(|r| r.starts_with("dst")).unwrap_or(false) {
            v.push(format!("{} of {} although --no-clobber is set", e.name, e.rel.clone().unwrap_or_default()));
        }
    }
    let made: Vec<&crate::sup::Ev> = ex.res.events.iter().filter(|e| (e.name == "mknodat" || e.name == "mknod") && e.ret == 0).collect();
    if made.len() > 1 {
        v.push("two nodes were created at the same destination path under --no-clobber".into());
    }
    simple_judge(v, ex, true)
}

pub fn scenarios(quick: bool) -> Vec<Scenario> {
    let mut v = vec![];
    let kinds: Vec<(&str, Kind)> = vec![("fifo", Kind::Fifo), ("sock", Kind::Socket), ("chr1_3", Kind::Chr(1, 3)), ("chr5_1", Kind::Chr(5, 1)), ("chr240_7", Kind::Chr(240, 7)), ("chr1_300", Kind::Chr(1, 300))];
    for d in drivers() {
        for (kn, k) in &kinds {
            for mode in [0o600u32, 0o644, 0o666, 0o777, 0o1777, 0o2660, 0o4711, 0o7777, 0o000] {
                for umask in [0u32, 0o022, 0o077] {
                    for pos in ["sole", "tree"] {
                        for dest in ["fresh", "file", "fifo", "same"] {
                            for nc in [false, true] {
                                if quick && nc && dest == "fresh" && mode != 0o644 {
                                    continue;
                                }
                                let mut tree = vec![];
                                let mut args: Vec<&str> = vec!["--driver", d, "-w", "2"];
                                if nc {
                                    args.push("-n");
                                }
                                if pos == "sole" {
                                    tree.push(Entry::new("node", k.clone()).mode(mode));
                                    match dest {
                                        "file" => tree.push(Entry::file("out", "existing file").mtime(1_200_000_000, 1)),
                                        "fifo" => tree.push(Entry::new("out", Kind::Fifo).mode(0o640)),
                                        // an earlier copy made under another umask: same kind, device and mode as the source
                                        "same" => tree.push(Entry::new("out", k.clone()).mode(mode)),
                                        _ => {}
                                    }
                                    args.extend_from_slice(&["node", "out"]);
                                } else {
                                    tree.push(Entry::dir("src"));
                                    tree.push(Entry::file("src/reg", "regular").mtime(1_300_000_000, 1));
                                    tree.push(Entry::new("src/node", k.clone()).mode(mode));
                                    if dest != "fresh" {
                                        // several sources into an existing directory so that only the node collides
                                        tree.push(Entry::dir("dst"));
                                        match dest {
                                            "file" => tree.push(Entry::file("dst/node", "existing file").mtime(1_200_000_000, 1)),
                                            "same" => tree.push(Entry::new("dst/node", k.clone()).mode(mode)),
                                            _ => tree.push(Entry::new("dst/node", Kind::Fifo).mode(0o640)),
                                        }
                                        args.extend_from_slice(&["src/reg", "src/node", "dst"]);
                                    } else {
                                        args.extend_from_slice(&["-r", "src", "dst"]);
                                    }
                                }
                                let mut s = Scenario::new(&format!("node-{}-m{:o}-u{:o}-{}-{}-{}-{}", kn, mode, umask, pos, dest, if nc { "n" } else { "c" }, d), tree, &args);
                                s.umask = umask;
                                v.push(s);
                            }
                        }
                    }
                }
            }
        }
        // block devices and a tree mixing all kinds
        v.push(Scenario::new(&format!("node-blk-sole-{}", d), vec![Entry::new("b", Kind::Blk(7, 0))], &["--driver", d, "b", "out"]));
        v.push(Scenario::new(&format!("node-blk-tree-{}", d), vec![Entry::dir("src"), Entry::file("src/a", "a"), Entry::new("src/b", Kind::Blk(7, 1))], &["-r", "--driver", d, "src", "dst"]));
        let mut tree = vec![Entry::dir("src"), Entry::dir("src/sub")];
        for (i, (kn, k)) in kinds.iter().enumerate() {
            tree.push(Entry::new(&format!("src/{}", kn), k.clone()).mode(0o640 + i as u32));
            tree.push(Entry::new(&format!("src/sub/{}", kn), k.clone()).mode(0o604));
        }
        tree.push(Entry::file("src/sub/reg", "regular"));
        for w in ["1", "3"] {
            v.push(Scenario::new(&format!("node-mixed-tree-{}-w{}", d, w), tree.clone(), &["-r", "--driver", d, "-w", w, "src", "dst"]));
        }
    }
    v
}

pub fn run(ctx: &Ctx) -> Report {
    let mut rep = Report::new(
        "model_checking",
        "node kind {fifo, socket, chr 1:3, 5:1, 240:7, 1:300} x mode {0600,0644,0666,0777} x umask {0,022,077} x position {sole source, inside a tree} x destination {fresh, existing file, existing fifo} x {-, -n} x both drivers, plus block devices and a tree mixing every kind; executed by the real binary (as root, mknod works in the sandbox); oracle: lstat of the result has the same S_IFMT and st_rdev and mode = source mode & ~umask, an existing entry is replaced unless -n (then untouched and exit != 0), block device => exit != 0, and the trace contains no open/read of the special source; non-trivial = exited 0, per distinct trace",
    );
    let j: Judge = &judge;
    let sc = scenarios(ctx.quick());
    let n = sc.len();
    let st = scen_batch(ctx, sc, &[Policy::P0], j);
    rep.part("node kinds x modes x umasks x positions x destinations", st, serde_json::json!({"scenarios": n}));
    // several nodes handled by concurrent workers: the file-creation mask is process-global state
    let d = if ctx.quick() { 1 } else { 2 };
    let mut jobs = vec![];
    for drv in drivers() {
        for w in ["1", "2", "3"] {
            for um in [0o022u32, 0o077] {
                if w == "1" && um != 0o022 {
                    continue;
                }
                let tree = vec![
                    Entry::dir("src"),
                    Entry::new("src/p1", Kind::Fifo).mode(0o666),
                    Entry::new("src/p2", Kind::Fifo).mode(0o622),
                    Entry::new("src/s", Kind::Socket).mode(0o777),
                    Entry::new("src/c", Kind::Chr(1, 3)).mode(0o666),
                ];
                let mut s = Scenario::new(&format!("nodes-concurrent-{}-w{}-u{:o}", drv, w, um), tree, &["-r", "--driver", drv, "-w", w, "src", "dst"]);
                s.umask = um;
                let s = std::sync::Arc::new(s);
                for b in base_specs() {
                    jobs.push((s.clone(), b, d));
                }
                // the eager-parking policy: the workers sleep on the empty queue while the walker is still at it
                jobs.push((s.clone(), RunSpec::base(Policy::P2), d));
            }
        }
    }
    let st = crate::explore::explore(&ctx.pool, jobs, j);
    rep.part("four nodes copied by concurrent workers, schedule search", st, serde_json::json!({"d": d, "umask": ["022", "077"]}));
    let mut jobs = vec![];
    for drv in drivers() {
        for w in ["1", "2"] {
            let tree = vec![Entry::dir("a"), Entry::dir("b"), Entry::new("a/p", Kind::Fifo).mode(0o600), Entry::new("b/p", Kind::Chr(1, 3)).mode(0o640), Entry::dir("dst")];
            let s = std::sync::Arc::new(Scenario::new(&format!("same-target-noclobber-{}-w{}", drv, w), tree, &["-n", "--driver", drv, "-w", w, "a/p", "b/p", "dst"]));
            for b in base_specs() {
                jobs.push((s.clone(), b, d));
            }
        }
    }
    let js: Judge = &judge_same_target;
    let st = crate::explore::explore(&ctx.pool, jobs, js);
    rep.part("-n with two nodes mapping onto one path: the entry appears between the walker's probe and the worker", st, serde_json::json!({"d": d}));
    rep
}
