//! C06 — outcome independent of interleaving, worker count and driver

use super::*;
use crate::explore::{explore, Judge};
use crate::monitor;

pub fn judge(w: &Worker, scen: &Scenario, ex: &Exec) -> Judgement {
    let exp = model::expect(scen);
    let mut v = vec![];
    if !exit0(ex) {
        v.push(format!("this interleaving ends with {} although the copy is valid and the default schedule exits 0", ex.res.outcome.short()));
    }
    v.extend(judge_exit0_tree(w, scen, ex, &exp, Level::Meta));
    v.extend(monitor::created_before_parent(&ex.res, "dst"));
    v.extend(monitor::write_after_metadata(&ex.res));
    simple_judge(v, ex, exit0(ex))
}

pub fn run(ctx: &Ctx) -> Report {
    let mut rep = Report::new("model_checking", "all executions of the real xcp binary with at most d scheduling deviations (at system-call boundaries) from base policies P0 and P1; an execution is non-trivial if it exits 0 (copy completed) and is counted once per distinct system-call trace");
    let j: Judge = &judge;
    for (name, jobs) in sets::schedule_jobs(ctx.quick(), &|s| s) {
        let st = explore(&ctx.pool, jobs, j);
        rep.part(&name, st, serde_json::json!({"policies": ["P0", "P1"], "engine": "xsup"}));
    }
    rep.assumptions = vec![
        "pre-emption only at visible system calls and hook markers (DESIGN 3.1.7); crossbeam-channel, blocking-threadpool and Arc internals trusted".into(),
        "reference tree from the cp mapping rule; directory timestamps not compared (xcp does not copy them)".into(),
    ];
    rep
}
