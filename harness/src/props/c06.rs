//! C06 — outcome independent of interleaving, worker count and driver

use super::*;
use crate::explore::{explore, Judge};
use crate::monitor;

pub fn judge(w: &Worker, scen: &Scenario, ex: &Exec) -> Judgement {
    let exp = model::expect(scen);
    let mut v = vec![];
    if !exit0(ex) {
        v.push(format!("this interleaving ends with {} although the copy is valid and the default schedule exits 0", ex.res.outcome.short()));
    }
    v.extend(judge_exit0_tree(w, scen, ex, &exp, Level::Meta));
    v.extend(monitor::created_before_parent(&ex.res, "dst"));
    v.extend(monitor::write_after_metadata(&ex.res));
    simple_judge(v, ex, exit0(ex))
}

pub fn run(ctx: &Ctx) -> Report {
    let mut rep = Report::new("model_checking", "all executions of the real xcp binary with at most d scheduling deviations (at system-call boundaries) from base policies P0 and P1; an execution is non-trivial if it exits 0 (copy completed) and is counted once per distinct system-call trace");
    let j: Judge = &judge;
    for (name, jobs) in sets::schedule_jobs(ctx.quick(), &|s| s) {
        let st = explore(&ctx.pool, jobs, j);
        rep.part(&name, st, serde_json::json!({"policies": ["P0", "P1"], "engine": "xsup"}));
    }
    // the same tree under the usual descriptor limit, few and many workers, producers far ahead or everybody in
    // step: whether the copy succeeds must not depend on the worker count or on who runs first
    {
        use crate::scen::Entry;
        let mut jobs = vec![];
        let mut tree = vec![Entry::dir("src")];
        for i in 0..600 {
            tree.push(Entry::file(&format!("src/f{:04}", i), "x"));
        }
        for d in drivers() {
            for w in if ctx.quick() { vec!["1", "4"] } else { vec!["1", "2", "4", "16"] } {
                let mut s = Scenario::new(&format!("limit1024-{}-w{}", d, w), tree.clone(), &["-r", "--driver", d, "-w", w, "src", "dst"]);
                s.nofile = Some(1024);
                let s = std::sync::Arc::new(s);
                let producer_first: Vec<String> = if d == "parblock" { vec!["0.1.2".into(), "0.1.1".into(), "0.1".into(), "0".into(), "0.1.1.*".into()] } else { vec!["0.1.1".into(), "0.1".into(), "0".into()] };
                for mut sp in [RunSpec::base(Policy::P0), RunSpec::base(Policy::P1), RunSpec::base(Policy::Prio(producer_first.clone())), RunSpec::base(Policy::PrioRR(producer_first.clone())), RunSpec::base(Policy::RR)] {
                    sp.step_limit = 5_000_000;
                    jobs.push((s.clone(), sp, 0usize));
                }
            }
        }
        let st = explore(&ctx.pool, jobs, j);
        rep.part("600 files under RLIMIT_NOFILE=1024 x workers x {P0, P1, producers first, producers first then round robin, round robin}", st, serde_json::json!({}));
    }
    rep.assumptions = vec![
        "pre-emption only at visible system calls and hook markers (DESIGN 3.1.7); crossbeam-channel, blocking-threadpool and Arc internals trusted".into(),
        "reference tree from the cp mapping rule; directory timestamps not compared (xcp does not copy them)".into(),
    ];
    rep
}
