//! C19 — libfs sparse maps never hide data: every byte outside reported ranges is zero

use super::*;
use crate::scen::{write_content, Content};
use serde::{Deserialize, Serialize};
use serde_json::json;
use std::os::unix::fs::FileExt;

fn parse_ranges(s: &str) -> Result<Vec<(u64, u64, bool)>, String> {
    let s = s.trim();
    if s.is_empty() {
        return Ok(vec![]);
    }
    s.split(',')
        .map(|r| {
            let shared = r.ends_with('s');
            let r = r.trim_end_matches('s');
            let (a, b) = r.split_once('-').ok_or_else(|| format!("bad range {}", r))?;
            Ok((a.parse::<u64>().map_err(|e| e.to_string())?, b.parse::<u64>().map_err(|e| e.to_string())?, shared))
        })
        .collect()
}

/// merge oracle for one (input, output) pair
pub fn check_merge(input: &[(u64, u64, bool)], output: &[(u64, u64, bool)]) -> Option<String> {
    // ordered and non-overlapping
    for w in output.windows(2) {
        if w[0].1 > w[1].0 || w[0].0 > w[1].0 {
            return Some("output not ordered / overlapping".into());
        }
    }
    for o in output {
        if o.0 > o.1 {
            return Some("output range with start > end".into());
        }
    }
    // covers the union of the inputs
    for i in input {
        let mut pos = i.0;
        while pos < i.1 {
            match output.iter().find(|o| o.0 <= pos && pos < o.1) {
                Some(o) => pos = o.1,
                None => return Some(format!("input byte {} is not covered by the merged ranges", pos)),
            }
        }
    }
    // begin and end at input boundaries
    for o in output {
        if !input.iter().any(|i| i.0 == o.0) {
            return Some(format!("merged range starts at {} which is no input start", o.0));
        }
        if !input.iter().any(|i| i.1 == o.1) {
            return Some(format!("merged range ends at {} which is no input end", o.1));
        }
    }
    // adds nothing but gaps between consecutive inputs that were merged into one range
    for o in output {
        let mut pos = o.0;
        while pos < o.1 {
            if let Some(i) = input.iter().find(|i| i.0 <= pos && pos < i.1) {
                pos = i.1;
                continue;
            }
            // pos lies in a gap: it must be between two consecutive inputs both inside this output range
            let prev = input.iter().filter(|i| i.1 <= pos).last();
            let next = input.iter().find(|i| i.0 > pos);
            match (prev, next) {
                (Some(p), Some(n)) if p.0 >= o.0 && n.1 <= o.1 => pos = n.0,
                _ => return Some(format!("merged range covers byte {} which is neither input nor a gap between merged inputs", pos)),
            }
        }
    }
    None
}

/// merge oracle for arbitrary sorted-by-start input (extents may overlap or nest): coverage and boundaries only
pub fn check_merge_any(input: &[(u64, u64, bool)], output: &[(u64, u64, bool)]) -> Option<String> {
    let maxend = input.iter().map(|i| i.1).max().unwrap_or(0);
    for x in 0..maxend {
        let in_input = input.iter().any(|i| i.0 <= x && x < i.1);
        let in_output = output.iter().any(|o| o.0 <= x && x < o.1);
        if in_input && !in_output {
            return Some(format!("input byte {} is not covered by the merged ranges", x));
        }
        if in_output && !in_input {
            // only a gap between two consecutive inputs that were merged together
            let ok = (0..input.len().saturating_sub(1)).any(|k| input[k].1 <= x && x < input[k + 1].0 && output.iter().any(|o| o.0 <= input[k].0 && input[k + 1].1 <= o.1 && o.0 <= x && x < o.1));
            if !ok {
                return Some(format!("merged ranges cover byte {} which is neither input nor a gap between merged neighbours", x));
            }
        }
    }
    for o in output {
        if !input.iter().any(|i| i.0 == o.0) || !input.iter().any(|i| i.1 == o.1) {
            return Some(format!("merged range {}-{} does not begin and end at input boundaries", o.0, o.1));
        }
        if o.1 > maxend {
            return Some(format!("merged range {}-{} extends past every input", o.0, o.1));
        }
    }
    None
}

/// a map of a real file: ordered, non-overlapping (empty ranges allowed), every byte outside reads zero
pub fn check_map(what: &str, ranges: &[(u64, u64, bool)], data: &[u8]) -> Option<String> {
    for w in ranges.windows(2) {
        if w[0].1 > w[1].0 || w[0].0 > w[1].0 {
            return Some(format!("{}: ranges not ordered / overlapping: {:?} then {:?}", what, w[0], w[1]));
        }
    }
    for r in ranges {
        if r.0 > r.1 {
            return Some(format!("{}: range with start > end {:?}", what, r));
        }
    }
    let mut pos = 0usize;
    let mut idx = 0;
    while pos < data.len() {
        while idx < ranges.len() && (ranges[idx].1 as usize) <= pos {
            idx += 1;
        }
        if idx < ranges.len() && (ranges[idx].0 as usize) <= pos {
            pos = ranges[idx].1 as usize;
            continue;
        }
        let upto = if idx < ranges.len() { (ranges[idx].0 as usize).min(data.len()) } else { data.len() };
        if let Some(k) = data[pos..upto].iter().position(|&b| b != 0) {
            return Some(format!("{}: byte {} is {:#04x} but lies outside every reported range", what, pos + k, data[pos + k]));
        }
        pos = upto;
    }
    None
}

/// the probe's output for one file when hole seeking may be refused: an error is fine, a map that hides data is not
pub fn judge_refused_seek(_w: &Worker, scen: &Scenario, ex: &Exec) -> Judgement {
    let mut v = vec![];
    let data = scen.tree.iter().find(|e| e.path == "f").and_then(|e| e.content()).map(|c| c.bytes()).unwrap_or_default();
    let out = String::from_utf8_lossy(&ex.res.stdout).to_string();
    let mut failed = false;
    let mut segs: Option<String> = None;
    for l in out.lines() {
        let (k, val) = l.split_once(' ').unwrap_or((l, ""));
        match k {
            "segments" if val.starts_with("error") => failed = true,
            "segments" => segs = Some(val.to_string()),
            "segments-stuck" => v.push("next_sparse_segments does not advance".to_string()),
            _ => {}
        }
    }
    if ex.res.outcome.is_hang() {
        v.push(format!("the probe does not terminate: {}", ex.res.outcome.short()));
    }
    let mut nontrivial = false;
    if !failed {
        if let Some(sv) = segs {
            match parse_ranges(&sv) {
                Ok(r) => {
                    nontrivial = true;
                    if let Some(msg) = check_map("segments", &r, &data) {
                        v.push(msg);
                    }
                }
                Err(e) => v.push(format!("cannot parse the segment list: {}", e)),
            }
        }
    }
    simple_judge(v, ex, nontrivial)
}

#[derive(Serialize, Deserialize, Clone)]
struct FileJob {
    name: String,
    content: Content,
    tmpfs: bool,
    /// fallocate the whole file first, then write the data: extents stay flagged UNWRITTEN until write-back
    #[serde(default)]
    prealloc: bool,
}

#[derive(Serialize, Deserialize, Default)]
struct Acc {
    evals: u64,
    nontrivial: u64,
    violations: Vec<(String, serde_json::Value)>,
    errors: Vec<String>,
    samples: Vec<String>,
}

fn probe(w: &Worker, path: &str, scratch: &str) -> Result<std::collections::BTreeMap<String, String>, String> {
    let out = std::process::Command::new(&w.bins.apiprobe).args(["extents", path, scratch]).output().map_err(|e| format!("apiprobe: {}", e))?;
    if !out.status.success() {
        return Err(format!("apiprobe extents failed: {}", String::from_utf8_lossy(&out.stderr)));
    }
    let mut m = std::collections::BTreeMap::new();
    for l in String::from_utf8_lossy(&out.stdout).lines() {
        let (k, v) = l.split_once(' ').unwrap_or((l, ""));
        m.insert(k.to_string(), v.to_string());
    }
    Ok(m)
}

fn check_file_maps(w: &Worker, job: &FileJob, acc: &mut Acc) {
    let base = if job.tmpfs { w.base_tmpfs.clone() } else { w.base_ext4.clone() };
    let path = format!("{}/c19-file", base);
    let scratch = format!("{}/c19-scratch", base);
    let _ = std::fs::remove_file(&path);
    let wr = if job.prealloc {
        (|| -> Result<(), String> {
            let f = std::fs::OpenOptions::new().write(true).create(true).truncate(true).open(&path).map_err(|e| e.to_string())?;
            use std::os::unix::io::AsRawFd;
            if job.content.len() > 0 {
                let r = unsafe { libc::fallocate(f.as_raw_fd(), 0, 0, job.content.len() as i64) };
                if r != 0 {
                    return Err(format!("fallocate: {}", std::io::Error::last_os_error()));
                }
            }
            for (a, b) in job.content.segments() {
                f.write_all_at(&job.content.chunk(a, (b - a) as usize), a).map_err(|e| e.to_string())?;
            }
            Ok(())
        })()
    } else {
        write_content(std::path::Path::new(&path), &job.content)
    };
    if let Err(e) = wr {
        acc.errors.push(e);
        return;
    }
    let data = job.content.bytes();
    for phase in ["just-written", "after-fsync"] {
        if phase == "after-fsync" {
            if let Ok(f) = std::fs::File::open(&path) {
                let _ = f.sync_all();
                // read back through the file to be sure the oracle's bytes are the file's bytes
                let mut b = vec![0u8; data.len()];
                let _ = f.read_exact_at(&mut b, 0);
                if b != data {
                    acc.errors.push(format!("{}: file content differs from what was written", job.name));
                }
            }
        }
        let m = match probe(w, &path, &scratch) {
            Ok(m) => m,
            Err(e) => {
                acc.errors.push(e);
                return;
            }
        };
        acc.evals += 1;
        let mut nontrivial = false;
        if m.contains_key("segments-stuck") {
            acc.violations.push((format!("{} [{}]: next_sparse_segments does not advance", job.name, phase), json!(m)));
        }
        for key in ["extents", "merged", "segments"] {
            let val = match m.get(key) {
                Some(v) => v,
                None => continue,
            };
            if val == "none" {
                continue;
            }
            if val.starts_with("error") {
                acc.violations.push((format!("{} [{}]: {} failed: {}", job.name, phase, key, val), json!(m)));
                continue;
            }
            match parse_ranges(val) {
                Ok(r) => {
                    if r.len() > 1 || (!r.is_empty() && (r[0].0 != 0 || r[0].1 < data.len() as u64)) {
                        nontrivial = true;
                    }
                    if let Some(msg) = check_map(key, &r, &data) {
                        acc.violations.push((format!("{} [{}]: {}", job.name, phase, msg), json!(m)));
                    }
                    if key == "merged" {
                        if let Some(Ok(inp)) = m.get("extents").map(|e| parse_ranges(e)) {
                            if let Some(msg) = check_merge(&inp, &r) {
                                acc.violations.push((format!("{} [{}]: merge: {}", job.name, phase, msg), json!(m)));
                            }
                        }
                    }
                }
                Err(e) => acc.errors.push(format!("{}: cannot parse {}: {}", job.name, key, e)),
            }
        }
        if job.tmpfs && m.get("extents").map(|e| e != "none").unwrap_or(false) && !m.get("extents").map(|e| e.starts_with("error")).unwrap_or(false) {
            // informational only: tmpfs has no FIEMAP, None is expected
        }
        if nontrivial {
            acc.nontrivial += 1;
        }
        if acc.samples.len() < 3 {
            acc.samples.push(format!("{} [{}]: extents={} merged={} segments={}", job.name, phase, m.get("extents").cloned().unwrap_or_default(), m.get("merged").cloned().unwrap_or_default(), m.get("segments").cloned().unwrap_or_default()));
        }
    }
    let _ = std::fs::remove_file(&path);
    let _ = std::fs::remove_file(&scratch);
}

pub fn run(ctx: &Ctx) -> Report {
    let mut rep = Report::new(
        "model_checking",
        "(a) every sorted, non-overlapping extent list over the offset universe 0..U (with every shared-flag vector for short lists) through the real merge_extents; (b) real files: every {Data,Hole} string up to a length bound in 4 KiB units x tails {0,1,4095}, files of 31..100 extents, queried through map_extents, merge_extents(map_extents) and the next_sparse_segments walk immediately after writing and again after fsync, on ext4 and on tmpfs; oracle: ranges ordered and non-overlapping, every byte outside them reads zero; merged ranges cover the inputs, begin/end at input boundaries and add only gaps between inputs merged together; non-trivial = a map with more than one range or not spanning the whole file / a list of two or more extents",
    );
    let q = ctx.quick();
    if ctx.pool.bins.apiprobe.is_empty() {
        rep.machinery_errors.push("apiprobe not built".into());
        return rep;
    }
    // (a) merge-all
    let u = if q { 12 } else { 15 };
    let mut evals = 0u64;
    let mut nontrivial = 0u64;
    let mut samples: Vec<serde_json::Value> = vec![];
    for (uu, shared) in [(u, false), (if q { 6 } else { 7 }, true)] {
        let mut args = vec!["merge-all".to_string(), uu.to_string()];
        if shared {
            args.push("shared".into());
        }
        match std::process::Command::new(&ctx.pool.bins.apiprobe).args(&args).output() {
            Ok(out) if out.status.success() => {
                for l in String::from_utf8_lossy(&out.stdout).lines() {
                    if l.starts_with("lists ") {
                        continue;
                    }
                    let (a, b) = match l.split_once(" => ") {
                        Some(x) => x,
                        None => {
                            if l.ends_with(" =>") {
                                (l.trim_end_matches(" =>"), "")
                            } else {
                                rep.machinery_errors.push(format!("unparsable merge-all line: {}", l));
                                continue;
                            }
                        }
                    };
                    evals += 1;
                    if b.starts_with("error") {
                        rep.plain_violations.push((format!("merge_extents failed on [{}]: {}", a, b), json!({"input": a})));
                        continue;
                    }
                    match (parse_ranges(a), parse_ranges(b)) {
                        (Ok(i), Ok(o)) => {
                            if i.len() >= 2 {
                                nontrivial += 1;
                            }
                            if let Some(msg) = check_merge(&i, &o) {
                                rep.plain_violations.push((format!("merge_extents([{}]) = [{}]: {}", a, b, msg), json!({"input": a, "output": b})));
                            }
                            // shared flag: a merged range is shared only if all its inputs are
                            for (os, oe, osh) in &o {
                                let parts: Vec<&(u64, u64, bool)> = i.iter().filter(|x| x.0 >= *os && x.1 <= *oe).collect();
                                if *osh && parts.iter().any(|p| !p.2) {
                                    rep.plain_violations.push((format!("merge_extents([{}]) = [{}]: range {}-{} marked shared although an input is not", a, b, os, oe), json!({"input": a, "output": b})));
                                }
                            }
                            if samples.len() < 3 && i.len() >= 3 {
                                samples.push(json!(format!("merge_extents([{}]) = [{}]", a, b)));
                            }
                        }
                        _ => rep.machinery_errors.push(format!("unparsable merge-all line: {}", l)),
                    }
                }
            }
            Ok(out) => rep.machinery_errors.push(format!("apiprobe merge-all failed: {}", String::from_utf8_lossy(&out.stderr))),
            Err(e) => rep.machinery_errors.push(format!("apiprobe: {}", e)),
        }
    }
    // (a') lists that are only sorted by start: touching, overlapping and nested extents
    {
        let (uu, ml) = if q { (7, 4) } else { (9, 4) };
        match std::process::Command::new(&ctx.pool.bins.apiprobe).args(["merge-any", &uu.to_string(), &ml.to_string()]).output() {
            Ok(out) if out.status.success() => {
                for l in String::from_utf8_lossy(&out.stdout).lines() {
                    if l.starts_with("lists ") {
                        continue;
                    }
                    let (a, b) = match l.split_once(" => ") {
                        Some(x) => x,
                        None => (l.trim_end_matches(" =>"), ""),
                    };
                    evals += 1;
                    if b.starts_with("error") {
                        rep.plain_violations.push((format!("merge_extents failed on [{}]: {}", a, b), json!({"input": a})));
                        continue;
                    }
                    if let (Ok(i), Ok(o)) = (parse_ranges(a), parse_ranges(b)) {
                        if i.len() >= 2 {
                            nontrivial += 1;
                        }
                        if let Some(msg) = check_merge_any(&i, &o) {
                            rep.plain_violations.push((format!("merge_extents([{}]) = [{}]: {}", a, b, msg), json!({"input": a, "output": b})));
                        }
                    }
                }
            }
            Ok(out) => rep.machinery_errors.push(format!("apiprobe merge-any failed: {}", String::from_utf8_lossy(&out.stderr))),
            Err(e) => rep.machinery_errors.push(format!("apiprobe: {}", e)),
        }
        rep.extra.insert("merge_any_universe".into(), json!({"U": uu, "max_extents": ml}));
    }
    // (b) real files
    let mut jobs: Vec<FileJob> = vec![];
    for tmpfs in [false, true] {
        for units in c01::all_layouts(if q { 5 } else { 8 }) {
            for tail in [0u64, 1, 4095] {
                let name: String = units.iter().map(|&b| if b { 'D' } else { 'H' }).collect();
                jobs.push(FileJob { name: format!("{}+{}{}", name, tail, if tmpfs { "@tmpfs" } else { "@ext4" }), content: Content::Layout { unit: 4096, units: units.clone(), tail, seed: 21 }, tmpfs, prealloc: false });
            }
        }
        for n in if q { vec![31usize, 32, 33, 65] } else { vec![1, 31, 32, 33, 64, 65, 96, 97, 100] } {
            jobs.push(FileJob { name: format!("{}-extents{}", n, if tmpfs { "@tmpfs" } else { "@ext4" }), content: c11::many_extents(n, 16384), tmpfs, prealloc: false });
        }
        jobs.push(FileJob { name: format!("empty{}", if tmpfs { "@tmpfs" } else { "@ext4" }), content: Content::Bytes(String::new()), tmpfs, prealloc: false });
        jobs.push(FileJob { name: format!("dense-small{}", if tmpfs { "@tmpfs" } else { "@ext4" }), content: Content::Gen { len: 5000, seed: 1 }, tmpfs, prealloc: false });
    }
    // preallocated files: written but not yet written back, the extents are still flagged UNWRITTEN
    for units in c01::all_layouts(if q { 3 } else { 5 }) {
        for tail in [0u64, 100] {
            let name: String = units.iter().map(|&b| if b { 'D' } else { 'H' }).collect();
            jobs.push(FileJob { name: format!("prealloc-{}+{}@ext4", name, tail), content: Content::Layout { unit: 4096, units: units.clone(), tail, seed: 22 }, tmpfs: false, prealloc: true });
        }
    }
    jobs.push(FileJob { name: "prealloc-dense-300000@ext4".into(), content: Content::Gen { len: 300_000, seed: 23 }, tmpfs: false, prealloc: true });
    let njobs = jobs.len();
    let accs = crate::explore::par_work(&ctx.pool, jobs, Acc::default, |w, job: FileJob, _more, acc: &mut Acc| {
        check_file_maps(w, &job, acc);
    });
    for a in accs {
        evals += a.evals;
        nontrivial += a.nontrivial;
        rep.plain_violations.extend(a.violations);
        rep.machinery_errors.extend(a.errors);
        for s in a.samples {
            if samples.len() < 6 {
                samples.push(json!(s));
            }
        }
    }
    // the segment search when the file system refuses a hole-seeking call: the walk may fail, it may not report
    // the rest of the file as a hole. The probe runs under the supervisor here (one refused lseek per execution).
    {
        use crate::explore::Judge;
        use crate::scen::{Entry, Kind};
        use crate::sup::{Action, Fault};
        let jf: Judge = &judge_refused_seek;
        let mut jobs = vec![];
        for units in c01::all_layouts(if q { 3 } else { 5 }) {
            for tail in [0u64, 5] {
                let name: String = units.iter().map(|&b| if b { 'D' } else { 'H' }).collect();
                let c = Content::Layout { unit: 4096, units: units.clone(), tail, seed: 23 };
                let mut s = Scenario::new(&format!("refused-seek-{}+{}", name, tail), vec![Entry::new("f", Kind::File(c))], &["extents", "f", "out"]);
                s.prog = crate::scen::Prog::ApiProbe;
                let s = std::sync::Arc::new(s);
                jobs.push((s.clone(), RunSpec::base(Policy::P0), 0usize));
                for call in ["lseek:DATA", "lseek:HOLE"] {
                    for nth in [None, Some(1), Some(2), Some(3), Some(4)] {
                        for en in [libc::EINVAL, libc::EIO] {
                            let mut sp = RunSpec::base(Policy::P0);
                            sp.faults.push(Fault { call: call.into(), thread: None, nth, path_contains: None, action: Action::Errno(en) });
                            jobs.push((s.clone(), sp, 0usize));
                        }
                    }
                }
            }
        }
        let st = crate::explore::explore(&ctx.pool, jobs, jf);
        rep.part("segment search with one (or every) SEEK_DATA / SEEK_HOLE call refused (EINVAL, EIO), under the supervisor", st, json!({}));
    }
    rep.extra.insert("inprocess_evaluations".into(), json!(evals));
    rep.extra.insert("inprocess_nontrivial".into(), json!(nontrivial));
    rep.extra.insert("samples".into(), json!(samples));
    rep.extra.insert("merge_universe".into(), json!(u));
    rep.extra.insert("real_files".into(), json!(njobs));
    rep.extra.insert("fiemap_substitution".into(), json!("not built: FIEMAP page shapes the real file system does not produce on demand (exactly 32 mapped without LAST, short page without LAST) are not enumerated; the 31/32/33/64/65 extent files cover the page boundaries the kernel does produce"));
    rep.assumptions = vec!["libfs is called through apiprobe (path dependency on /repo/libfs); outside the supervisor (sequential pure functions / read-only queries) except in the refused-seek part".into()];
    rep
}
