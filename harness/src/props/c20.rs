//! C20 — open descriptors stay bounded regardless of how many files are copied

use super::*;
use crate::explore::{explore, Judge};
use crate::scen::Entry;
use std::collections::BTreeMap;
use std::sync::Arc;

fn workers_of(scen: &Scenario) -> i64 {
    let i = scen.args.iter().position(|a| a == "-w").unwrap();
    scen.args[i + 1].parse().unwrap()
}

pub fn bound(w: i64) -> i64 {
    // 3 standard descriptors + directory handles of the walk and scratch (slack 8) + two per open file pair,
    // at most (pool queue 128 + w running + 1 being dispatched) pairs in flight
    3 + 8 + 2 * (128 + w + 1)
}

pub fn judge(_w: &Worker, scen: &Scenario, ex: &Exec) -> Judgement {
    let mut v = vec![];
    let w = workers_of(scen);
    if !exit0(ex) {
        v.push(format!("copy of a plain tree ends with {} (descriptor limit {:?})", ex.res.outcome.short(), scen.nofile));
    }
    if ex.res.peak_fds > bound(w) {
        v.push(format!("{} descriptors open at once with {} workers (bound {})", ex.res.peak_fds, w, bound(w)));
    }
    let mut j = simple_judge(v, ex, exit0(ex));
    j.outcome_key = format!("{}|{:?}|peak={}", scen.name, ex.spec.policy, ex.res.peak_fds);
    j
}

fn tree(n: usize) -> Vec<Entry> {
    let mut t = vec![Entry::dir("src")];
    for i in 0..n {
        t.push(Entry::file(&format!("src/f{:05}", i), "x"));
    }
    t
}

fn permutations(items: &[Vec<String>]) -> Vec<Vec<String>> {
    fn rec(rest: &mut Vec<Vec<String>>, cur: &mut Vec<String>, out: &mut Vec<Vec<String>>) {
        if rest.is_empty() {
            out.push(cur.clone());
            return;
        }
        for i in 0..rest.len() {
            let it = rest.remove(i);
            let l = it.len();
            cur.extend(it.clone());
            rec(rest, cur, out);
            cur.truncate(cur.len() - l);
            rest.insert(i, it);
        }
    }
    let mut out = vec![];
    rec(&mut items.to_vec(), &mut vec![], &mut out);
    out
}

/// every static priority order over the thread roles of a driver
pub fn orders(driver: &str, w: i64) -> Vec<Vec<String>> {
    let s = |x: &str| vec![x.to_string()];
    if driver == "parfile" {
        let workers: Vec<String> = (2..(2 + w)).map(|k| format!("0.1.{}", k)).collect();
        permutations(&[s("0"), s("0.1"), s("0.1.1"), workers])
    } else {
        permutations(&[s("0"), s("0.1"), s("0.1.1"), s("0.1.2"), s("0.1.1.*")])
    }
}

pub fn run(ctx: &Ctx) -> Report {
    let mut rep = Report::new(
        "model_checking",
        "the schedule that maximises open files is an adversarial priority schedule (producer far ahead of consumers), so the space searched is every static pre-emptive priority order over the thread roles (main, copy thread, walker, dispatcher, worker class: 120 orders for parblock, 24 for parfile) x file counts x worker counts x both drivers, each executed by the real binary with descriptor accounting in the supervisor (open/dup/close tracked); plus runs under RLIMIT_NOFILE=1024 with more files than the limit; oracle: peak open descriptors <= 11 + 2*(128 + w + 1), no growth beyond n=280 (saturated pipeline) under the same order, exit 0 under the limit; non-trivial = exited 0, per distinct (scenario, order, trace)",
    );
    crate::explore::SNAP_BEFORE.store(false, std::sync::atomic::Ordering::Relaxed);
    let j: Judge = &judge;
    let q = ctx.quick();
    let ns: Vec<usize> = if q { vec![1, 280, 560] } else { vec![1, 50, 140, 280, 560, 1000] };
    let ws: Vec<i64> = if q { vec![2] } else { vec![1, 2, 4, 16] };
    let mut jobs = vec![];
    for d in drivers() {
        for &w in &ws {
            for &n in &ns {
                let wstr = w.to_string();
                let s = Arc::new(Scenario::new(&format!("fds-{}-w{}-n{}", d, w, n), tree(n), &["-r", "--driver", d, "-w", &wstr, "src", "dst"]));
                for (oi, o) in orders(d, w).into_iter().enumerate() {
                    if q && d == "parblock" && n == 1 && oi % 4 != 0 {
                        continue;
                    }
                    let mut sp = RunSpec::base(Policy::Prio(o));
                    sp.step_limit = 2_000_000;
                    jobs.push((s.clone(), sp, 0usize));
                }
            }
        }
    }
    if q {
        // larger pools under the extreme orders only (all orders are covered for w=2 above and in the thorough tier)
        for d in drivers() {
            for &w in &[16i64, 64] {
                for &n in &[700usize] {
                    let wstr = w.to_string();
                    let s = Arc::new(Scenario::new(&format!("fds-{}-w{}-n{}", d, w, n), tree(n), &["-r", "--driver", d, "-w", &wstr, "src", "dst"]));
                    let os = orders(d, w);
                    let producer_first: Vec<String> = if d == "parblock" { vec!["0.1.2".into(), "0.1.1".into(), "0.1".into(), "0".into(), "0.1.1.*".into()] } else { os[0].clone() };
                    for o in [producer_first, os[0].clone(), os.last().unwrap().clone()] {
                        let mut sp = RunSpec::base(Policy::Prio(o));
                        sp.step_limit = 5_000_000;
                        jobs.push((s.clone(), sp, 0usize));
                    }
                }
            }
        }
    }
    let njobs = jobs.len();
    let st = explore(&ctx.pool, jobs, j);
    // growth with n under the same (driver, w, order)
    let mut peaks: BTreeMap<(String, String), BTreeMap<usize, i64>> = BTreeMap::new();
    for k in st.outcomes.keys() {
        let parts: Vec<&str> = k.split('|').collect();
        if parts.len() != 3 {
            continue;
        }
        let name = parts[0];
        let (pre, n) = match name.rsplit_once("-n") {
            Some((a, b)) => (a.to_string(), b.parse::<usize>().unwrap_or(0)),
            None => continue,
        };
        let peak: i64 = parts[2].trim_start_matches("peak=").parse().unwrap_or(0);
        let e = peaks.entry((pre, parts[1].to_string())).or_default();
        let cur = e.entry(n).or_insert(0);
        *cur = (*cur).max(peak);
    }
    let mut worst: BTreeMap<String, i64> = BTreeMap::new();
    for ((pre, order), m) in &peaks {
        let w = worst.entry(pre.clone()).or_insert(0);
        *w = (*w).max(*m.values().max().unwrap_or(&0));
        // n >= 280 is more than twice what the queue plus the workers can hold: the pipeline is saturated
        let big: Vec<(&usize, &i64)> = m.iter().filter(|(n, _)| **n >= 280).collect();
        for pair in big.windows(2) {
            if pair[1].1 > pair[0].1 {
                rep.plain_violations.push((
                    format!("peak open descriptors grow with the number of files: {} at n={} but {} at n={} ({} under {})", pair[0].1, pair[0].0, pair[1].1, pair[1].0, pre, order),
                    serde_json::json!({"scenario": pre, "order": order, "peaks": m}),
                ));
            }
        }
    }
    rep.extra.insert("worst_peak_per_configuration".into(), serde_json::json!(worst));
    rep.part("all priority orders x file counts x workers", st, serde_json::json!({"file_counts": ns, "workers": ws, "jobs": njobs}));
    // under the descriptor limit
    let mut jobs = vec![];
    for d in drivers() {
        for (n, w) in if q { vec![(600usize, 2i64), (700, 16)] } else { vec![(600, 2), (700, 16), (5000, 4), (5000, 64)] } {
            let wstr = w.to_string();
            let mut s = Scenario::new(&format!("fds-limit1024-{}-w{}-n{}", d, w, n), tree(n), &["-r", "--driver", d, "-w", &wstr, "src", "dst"]);
            s.nofile = Some(1024);
            let s = Arc::new(s);
            // producers first / consumers first / default policies
            let os = orders(d, w);
            let mut specs = vec![RunSpec::base(Policy::P0), RunSpec::base(Policy::P1)];
            let dispatcher_first: Vec<String> = if d == "parblock" { vec!["0.1.2".into(), "0.1.1".into(), "0.1".into(), "0".into(), "0.1.1.*".into()] } else { os[0].clone() };
            specs.push(RunSpec::base(Policy::Prio(dispatcher_first)));
            specs.push(RunSpec::base(Policy::Prio(os.last().unwrap().clone())));
            for mut sp in specs {
                sp.step_limit = 5_000_000;
                jobs.push((s.clone(), sp, 0usize));
            }
        }
    }
    let st = explore(&ctx.pool, jobs, j);
    rep.part("more files than RLIMIT_NOFILE=1024 allows to hold open", st, serde_json::json!({}));
    // one worker stalled while the other keeps going (the worker class split into individual threads)
    let mut jobs = vec![];
    for n in [280usize, 560] {
        let s = Arc::new(Scenario::new(&format!("fds-stalled-worker-parblock-w2-n{}", n), tree(n), &["-r", "--driver", "parblock", "-w", "2", "src", "dst"]));
        let v = |x: &[&str]| x.iter().map(|y| y.to_string()).collect::<Vec<String>>();
        for o in [
            v(&["0.1.1.1", "0.1.1", "0.1.2", "0.1", "0", "0.1.1.2"]),
            v(&["0.1.1.2", "0.1.1", "0.1.2", "0.1", "0", "0.1.1.1"]),
            v(&["0.1.1", "0.1.2", "0.1.1.1", "0.1", "0", "0.1.1.2"]),
            v(&["0.1.2", "0.1.1", "0.1.1.2", "0", "0.1", "0.1.1.1"]),
            v(&["0.1.1.1", "0.1.2", "0.1.1", "0", "0.1", "0.1.1.2"]),
            v(&["0.1.2", "0.1.1.2", "0.1.1", "0.1", "0", "0.1.1.1"]),
        ] {
            let mut sp = RunSpec::base(Policy::Prio(o));
            sp.step_limit = 3_000_000;
            jobs.push((s.clone(), sp, 0usize));
        }
    }
    // the same with a worker held at its first copy call (it owns a job) until nothing else can run
    for d in drivers() {
        for n in [280usize, 560] {
            let s = Arc::new(Scenario::new(&format!("fds-held-worker-{}-w2-n{}", d, n), tree(n), &["-r", "--driver", d, "-w", "2", "src", "dst"]));
            let workers: Vec<&str> = if d == "parblock" { vec!["0.1.1.1", "0.1.1.2"] } else { vec!["0.1.2", "0.1.3"] };
            for wk in workers {
                for pol in [Policy::P0, Policy::P1] {
                    let mut sp = RunSpec::base(pol);
                    sp.step_limit = 3_000_000;
                    sp.faults.push(crate::sup::Fault { call: "copy_file_range".into(), thread: Some(wk.to_string()), nth: Some(1), path_contains: None, action: crate::sup::Action::Hold });
                    jobs.push((s.clone(), sp, 0usize));
                }
            }
        }
    }
    let st = explore(&ctx.pool, jobs, j);
    rep.part("one worker starved or held at its first copy call (it owns a job) while everything else runs", st, serde_json::json!({"orders": 6, "held": "each worker, both base policies"}));
    // --fsync: syncing must not keep descriptors (or threads) around per file
    let mut jobs = vec![];
    for d in drivers() {
        for n in [280usize, 560] {
            let s = Arc::new(Scenario::new(&format!("fds-fsync-{}-w2-n{}", d, n), tree(n), &["-r", "--fsync", "--driver", d, "-w", "2", "src", "dst"]));
            let os = orders(d, 2);
            for mut sp in [RunSpec::base(Policy::P0), RunSpec::base(Policy::P1), RunSpec::base(Policy::Prio(os[0].clone())), RunSpec::base(Policy::Prio(os.last().unwrap().clone())), RunSpec::base(Policy::Prio(os[os.len() / 2].clone()))] {
                sp.step_limit = 3_000_000;
                jobs.push((s.clone(), sp, 0usize));
            }
        }
    }
    let st = explore(&ctx.pool, jobs, j);
    rep.part("--fsync with 280 / 560 files", st, serde_json::json!({}));
    // depth instead of width: one file per level of a 300-level chain
    let mut jobs = vec![];
    for d in drivers() {
        let mut t = vec![Entry::dir("src")];
        let mut p = String::from("src");
        for _ in 0..300 {
            p.push_str("/d");
            t.push(Entry::dir(&p));
            t.push(Entry::file(&format!("{}/f", p), "x"));
        }
        let s = Arc::new(Scenario::new(&format!("fds-deep-{}-w2-n300", d), t, &["-r", "--driver", d, "-w", "2", "src", "dst"]));
        let os = orders(d, 2);
        for mut sp in [RunSpec::base(Policy::P0), RunSpec::base(Policy::P1), RunSpec::base(Policy::Prio(os[0].clone())), RunSpec::base(Policy::Prio(os.last().unwrap().clone()))] {
            sp.step_limit = 3_000_000;
            jobs.push((s.clone(), sp, 0usize));
        }
    }
    let st = explore(&ctx.pool, jobs, j);
    rep.part("a 300-level deep tree (descriptors must not grow with depth either)", st, serde_json::json!({"depth": 300}));
    // width in the argument list instead of in one directory: hundreds of source arguments, each a directory. Under
    // round robin every thread advances evenly, so whatever is held per source is held for all of them at once.
    let mut jobs = vec![];
    for d in drivers() {
        for n in if q { vec![300usize] } else { vec![150usize, 300, 600] } {
            let mut t = vec![Entry::dir("dst")];
            let mut names: Vec<String> = vec![];
            for i in 0..n {
                let dn = format!("s{:04}", i);
                t.push(Entry::dir(&dn));
                t.push(Entry::file(&format!("{}/f", dn), "x"));
                names.push(dn);
            }
            let mut args: Vec<&str> = vec!["-r", "--driver", d, "-w", "2"];
            args.extend(names.iter().map(|x| x.as_str()));
            args.push("dst");
            let s = Arc::new(Scenario::new(&format!("fds-many-sources-{}-w2-n{}", d, n), t, &args));
            let os = orders(d, 2);
            let walker_first: Vec<String> = vec!["0.1.1".into(), "0.1".into(), "0".into()];
            for mut sp in [
                RunSpec::base(Policy::RR),
                RunSpec::base(Policy::P0),
                RunSpec::base(Policy::P1),
                RunSpec::base(Policy::Prio(os[0].clone())),
                RunSpec::base(Policy::Prio(os.last().unwrap().clone())),
                RunSpec::base(Policy::PrioRR(os[0].clone())),
                RunSpec::base(Policy::PrioRR(os.last().unwrap().clone())),
                RunSpec::base(Policy::PrioRR(walker_first.clone())),
                RunSpec::base(Policy::PrioRR(vec![])),
            ] {
                sp.step_limit = 5_000_000;
                jobs.push((s.clone(), sp, 0usize));
            }
        }
    }
    // and round robin on the plain wide tree
    for d in drivers() {
        for n in [280usize, 560] {
            let s = Arc::new(Scenario::new(&format!("fds-roundrobin-{}-w2-n{}", d, n), tree(n), &["-r", "--driver", d, "-w", "2", "src", "dst"]));
            let mut sp = RunSpec::base(Policy::RR);
            sp.step_limit = 5_000_000;
            jobs.push((s, sp, 0usize));
        }
    }
    let st = explore(&ctx.pool, jobs, j);
    rep.part("hundreds of source arguments (one directory each) and round-robin scheduling", st, serde_json::json!({}));
    // the same at atomic grain with priorities that are honoured the moment a thread is woken (PrioEager): who drops
    // the last reference to a file's handle is decided between two instructions, and a rule such as "whoever is last
    // closes it later" shows only when the other side is always the last
    if sets::ATOMIC_AVAILABLE.load(std::sync::atomic::Ordering::Relaxed) {
        let mut jobs = vec![];
        for d in drivers() {
            for n in [150usize, 300] {
                let mut sc = Scenario::new(&format!("fds-atomic-{}-w2-n{}", d, n), tree(n), &["-r", "--driver", d, "-w", "2", "src", "dst"]);
                sc.prog = crate::scen::Prog::XcpAtomic;
                let sc = Arc::new(sc);
                let os = orders(d, 2);
                let mut picks: Vec<Vec<String>> = vec![];
                // one order per role in front (the rest as enumerated first), plus the reverse of each
                for o in os.iter() {
                    if !picks.iter().any(|p: &Vec<String>| p[0] == o[0]) {
                        picks.push(o.clone());
                        let mut r = o.clone();
                        r[1..].reverse();
                        picks.push(r);
                    }
                }
                for o in picks {
                    let mut sp = RunSpec::base(Policy::PrioEager(o));
                    sp.step_limit = 20_000_000;
                    jobs.push((sc.clone(), sp, 0usize));
                }
            }
        }
        let st = explore(&ctx.pool, jobs, j);
        rep.part("atomic grain: 150 / 300 files under eager priority orders (each role first)", st, serde_json::json!({}));
    }
    if !q {
        // one deviation around the worst order at n=140
        let mut jobs = vec![];
        for d in drivers() {
            let s = Arc::new(Scenario::new(&format!("fds-dev-{}-w2-n140", d), tree(140), &["-r", "--driver", d, "-w", "2", "src", "dst"]));
            let o: Vec<String> = if d == "parblock" { vec!["0.1.2".into(), "0.1.1".into(), "0.1".into(), "0".into(), "0.1.1.*".into()] } else { vec!["0.1.1".into(), "0.1".into(), "0".into(), "0.1.2".into(), "0.1.3".into()] };
            let mut sp = RunSpec::base(Policy::Prio(o));
            sp.step_limit = 2_000_000;
            jobs.push((s, sp, 1usize));
        }
        let st = explore(&ctx.pool, jobs, j);
        rep.part("one deviation around the producer-first order, n=140", st, serde_json::json!({"d": 1}));
    }
    rep.assumptions = vec![
        "exhaustive over static priority orders of the thread roles, not over all interleavings of a 300-file run; the pool queue length (128) is a constant in the source".into(),
        "descriptor count = every descriptor the process holds (standard streams included), tracked from open/dup/close results".into(),
    ];
    rep
}
