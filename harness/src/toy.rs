//! toy programs for the engine self-test: a lost update, a correct mutex-protected update, an AB/BA deadlock
use std::sync::{Arc, Mutex};

fn bump(path: &str) {
    let v: u64 = std::fs::read_to_string(path).unwrap().trim().parse().unwrap();
    std::fs::write(path, format!("{}", v + 1)).unwrap();
}

fn main() {
    let mode = std::env::args().nth(1).unwrap_or_default();
    match mode.as_str() {
        "lost" => {
            let hs: Vec<_> = (0..2).map(|_| std::thread::spawn(|| bump("ctr"))).collect();
            for h in hs {
                h.join().unwrap();
            }
        }
        "mutex" => {
            let m = Arc::new(Mutex::new(()));
            let hs: Vec<_> = (0..2)
                .map(|_| {
                    let m = m.clone();
                    std::thread::spawn(move || {
                        let _g = m.lock().unwrap();
                        bump("ctr")
                    })
                })
                .collect();
            for h in hs {
                h.join().unwrap();
            }
        }
        "dead" => {
            let a = Arc::new(Mutex::new(()));
            let b = Arc::new(Mutex::new(()));
            let (a2, b2) = (a.clone(), b.clone());
            let h1 = std::thread::spawn(move || {
                let _x = a.lock().unwrap();
                let _ = std::fs::metadata("ctr");
                let _y = b.lock().unwrap();
            });
            let h2 = std::thread::spawn(move || {
                let _y = b2.lock().unwrap();
                let _ = std::fs::metadata("ctr");
                let _x = a2.lock().unwrap();
            });
            h1.join().unwrap();
            h2.join().unwrap();
        }
        "spin" => loop {
            let _ = std::fs::metadata("ctr");
        },
        _ => std::process::exit(2),
    }
}
