//! Reference model: what the sandbox must look like after a successful xcp run (cp's mapping
//! rule as worded in the properties), which invocations must be rejected, which must fail.
//! Deliberately boring: an in-memory tree and a dozen functions. No drivers, no blocks, no threads.

use crate::scen::{Content, Entry, Kind, Scenario, Snap, DEFAULT_MTIME};
use crate::util::{esc, unesc};
use std::collections::{BTreeMap, BTreeSet};

#[derive(Clone, Debug, PartialEq)]
pub enum MKind {
    File(Content),
    Dir,
    Symlink(String),
    Fifo,
    Socket,
    Chr(u32, u32),
    Blk(u32, u32),
}

impl MKind {
    pub fn ch(&self) -> char {
        match self {
            MKind::File(_) => 'f',
            MKind::Dir => 'd',
            MKind::Symlink(_) => 'l',
            MKind::Fifo => 'p',
            MKind::Socket => 's',
            MKind::Chr(..) => 'c',
            MKind::Blk(..) => 'b',
        }
    }
}

#[derive(Clone, Debug, PartialEq)]
pub enum MTime {
    At(i64, u32),
    /// set by the run: not before the run started
    Now,
    Any,
}

#[derive(Clone, Debug, PartialEq)]
pub enum Origin {
    /// present before the run and not a mapped target: must be untouched
    Initial,
    /// existing directory that receives entries: stays a directory
    InitialDir,
    /// produced by the copy
    Copied,
    /// directory created by the copy
    NewDir,
    /// the properties leave it open what happens here
    Open,
}

#[derive(Clone, Debug)]
pub struct MNode {
    pub kind: MKind,
    pub mode: Option<u32>,
    pub mtime: MTime,
    pub xattrs: Vec<(String, Vec<u8>)>,
    pub owner: Option<(u32, u32)>,
    pub origin: Origin,
    /// inode group for hard links among initial entries
    pub hl: Option<String>,
}

#[derive(Clone, Debug, Default)]
pub struct Opts {
    pub recursive: bool,
    pub deref: bool,
    pub workers: u64,
    pub block_size: Option<u64>,
    pub no_clobber: bool,
    pub force: bool,
    pub gitignore: bool,
    pub glob: bool,
    pub no_progress: bool,
    pub no_perms: bool,
    pub no_timestamps: bool,
    pub ownership: bool,
    pub driver: String,
    pub no_target_dir: bool,
    pub target_dir: Option<String>,
    pub fsync: bool,
    pub reflink: String,
    pub backup: String,
    pub paths: Vec<String>,
}

#[derive(Clone, Debug)]
pub struct Expectation {
    /// the invocation cannot be honoured: exit != 0 and nothing changes
    pub reject: Option<String>,
    /// the run must end with a non-zero status (dangling link under -L, collision under -n, block device ...)
    pub must_fail: Option<String>,
    /// expected sandbox after exit 0 (keys: escaped paths relative to the sandbox root)
    pub tree: BTreeMap<String, MNode>,
    /// number of regular files selected for copying / their total length
    pub nfiles: usize,
    pub total_len: u64,
    /// mapped (source, target) pairs
    pub mapped: Vec<(String, String)>,
    pub opts: Opts,
}

pub fn parse_size(s: &str) -> Option<u64> {
    // unbytify: number with optional decimal and suffix
    let s = s.trim();
    let idx = s.find(|c: char| !(c.is_ascii_digit() || c == '.')).unwrap_or(s.len());
    let (num, suf) = s.split_at(idx);
    let n: f64 = num.parse().ok()?;
    let suf = suf.trim().to_lowercase();
    let mult: f64 = match suf.as_str() {
        "" | "b" => 1.0,
        "k" | "kb" | "kib" => 1024.0,
        "m" | "mb" | "mib" => 1024.0 * 1024.0,
        "g" | "gb" | "gib" => 1024.0 * 1024.0 * 1024.0,
        "t" | "tb" | "tib" => 1024.0f64.powi(4),
        _ => return None,
    };
    Some((n * mult) as u64)
}

pub fn parse_args(args: &[String]) -> Result<Opts, String> {
    let mut o = Opts { workers: 4, driver: "parfile".into(), reflink: "auto".into(), backup: "none".into(), ..Default::default() };
    let mut i = 0;
    let mut only_paths = false;
    while i < args.len() {
        let a = &args[i];
        let mut val = |name: &str| -> Result<String, String> {
            i += 1;
            args.get(i).cloned().ok_or_else(|| format!("{} needs a value", name))
        };
        if only_paths || !a.starts_with('-') || a == "-" {
            o.paths.push(a.clone());
            i += 1;
            continue;
        }
        if a == "--" {
            only_paths = true;
            i += 1;
            continue;
        }
        let (key, inline): (String, Option<String>) = match a.split_once('=') {
            Some((k, v)) if a.starts_with("--") => (k.to_string(), Some(v.to_string())),
            _ => (a.clone(), None),
        };
        let mut take = |name: &str| -> Result<String, String> {
            match &inline {
                Some(v) => Ok(v.clone()),
                None => val(name),
            }
        };
        match key.as_str() {
            "-r" | "--recursive" => o.recursive = true,
            "-L" | "--dereference" => o.deref = true,
            "-n" | "--no-clobber" => o.no_clobber = true,
            "-f" | "--force" => o.force = true,
            "--gitignore" => o.gitignore = true,
            "-g" | "--glob" => o.glob = true,
            "--no-progress" => o.no_progress = true,
            "--no-perms" => o.no_perms = true,
            "--no-timestamps" => o.no_timestamps = true,
            "-o" | "--ownership" => o.ownership = true,
            "-T" | "--no-target-directory" => o.no_target_dir = true,
            "--fsync" => o.fsync = true,
            "-v" | "--verbose" | "-vv" | "-vvv" => {}
            "-w" | "--workers" => o.workers = take("workers")?.parse().map_err(|_| "bad workers".to_string())?,
            "--block-size" => o.block_size = Some(parse_size(&take("block-size")?).ok_or("bad block size")?),
            "--driver" => {
                o.driver = take("driver")?.to_lowercase();
                if o.driver != "parfile" && o.driver != "parblock" {
                    return Err("unknown driver".into());
                }
            }
            "--reflink" => {
                o.reflink = take("reflink")?.to_lowercase();
                if !["auto", "always", "never"].contains(&o.reflink.as_str()) {
                    return Err("unknown reflink".into());
                }
            }
            "--backup" => {
                o.backup = take("backup")?.to_lowercase();
                if o.backup == "off" {
                    o.backup = "none".into();
                }
                if !["none", "auto", "numbered"].contains(&o.backup.as_str()) {
                    return Err("unknown backup".into());
                }
            }
            "--target-directory" => o.target_dir = Some(take("target-directory")?),
            _ => return Err(format!("unknown option {}", a)),
        }
        i += 1;
    }
    Ok(o)
}

// ---------------------------------------------------------------------------------------------
// in-memory tree

pub struct MFs {
    pub nodes: BTreeMap<String, MNode>,
}

pub enum Look {
    /// canonical key of the entry
    Found(String),
    /// parent exists (canonical key) but the last component does not
    Missing(String, String),
    /// some intermediate component is missing / not a directory / loop / leaves the sandbox
    Bad(String),
}

fn split(p: &str) -> Vec<String> {
    // operate on raw bytes re-escaped per component
    let b = unesc(p);
    b.split(|&c| c == b'/').filter(|c| !c.is_empty()).map(|c| esc(c)).collect()
}

fn joinkey(dir: &str, name: &str) -> String {
    if dir.is_empty() {
        name.to_string()
    } else {
        format!("{}/{}", dir, name)
    }
}

fn parent_of(key: &str) -> String {
    match key.rfind('/') {
        Some(i) => key[..i].to_string(),
        None => String::new(),
    }
}

pub fn base_name(key: &str) -> String {
    match key.rfind('/') {
        Some(i) => key[i + 1..].to_string(),
        None => key.to_string(),
    }
}

impl MFs {
    pub fn from_tree(tree: &[Entry]) -> MFs {
        Self::from_tree_as(tree, (0, 0))
    }

    pub fn from_tree_as(tree: &[Entry], default_owner: (u32, u32)) -> MFs {
        let mut nodes = BTreeMap::new();
        nodes.insert(String::new(), MNode { kind: MKind::Dir, mode: Some(0o755), mtime: MTime::Any, xattrs: vec![], owner: None, origin: Origin::Initial, hl: None });
        for e in tree {
            let kind = match &e.kind {
                Kind::File(c) => MKind::File(c.clone()),
                Kind::Dir => MKind::Dir,
                Kind::Symlink(t) => MKind::Symlink(t.clone()),
                Kind::Fifo => MKind::Fifo,
                Kind::Socket => MKind::Socket,
                Kind::Chr(a, b) => MKind::Chr(*a, *b),
                Kind::Blk(a, b) => MKind::Blk(*a, *b),
                Kind::Hardlink(t) => {
                    let tn: MNode = nodes.get(t).cloned().expect("hardlink target must precede");
                    let mut n = tn.clone();
                    n.hl = Some(t.clone());
                    nodes.get_mut(t).unwrap().hl = Some(t.clone());
                    nodes.insert(e.path.clone(), n);
                    continue;
                }
            };
            let (s, ns) = e.mtime.unwrap_or(DEFAULT_MTIME);
            nodes.insert(
                e.path.clone(),
                MNode { kind, mode: Some(e.eff_mode()), mtime: MTime::At(s, ns), xattrs: e.xattrs.iter().map(|(k, v)| (k.clone(), unesc(v))).collect(), owner: Some(e.owner.unwrap_or(default_owner)), origin: Origin::Initial, hl: None },
            );
        }
        MFs { nodes }
    }

    /// resolve `path` (escaped; absolute paths must start with "{R}") from directory key `cwd`
    pub fn look(&self, cwd: &str, path: &str, follow_last: bool) -> Look {
        self.look_d(cwd, path, follow_last, 0)
    }

    fn look_d(&self, cwd: &str, path: &str, follow_last: bool, depth: usize) -> Look {
        if depth > 40 {
            return Look::Bad("too many levels of symbolic links".into());
        }
        let (mut cur, rest): (String, String) = if let Some(r) = path.strip_prefix("{R}") {
            (String::new(), r.to_string())
        } else if path.starts_with('/') {
            return Look::Bad("outside the sandbox".into());
        } else {
            (cwd.to_string(), path.to_string())
        };
        let comps = split(&rest);
        let n = comps.len();
        for (i, c) in comps.iter().enumerate() {
            let last = i + 1 == n;
            match self.nodes.get(&cur) {
                Some(nd) if nd.kind == MKind::Dir => {}
                _ => return Look::Bad(format!("{} is not a directory", cur)),
            }
            if c == "." {
                continue;
            }
            if c == ".." {
                cur = parent_of(&cur);
                continue;
            }
            let k = joinkey(&cur, c);
            match self.nodes.get(&k) {
                None => {
                    if last {
                        return Look::Missing(cur, c.clone());
                    }
                    return Look::Bad(format!("{} does not exist", k));
                }
                Some(nd) => {
                    if let MKind::Symlink(t) = &nd.kind {
                        if !last || follow_last {
                            let rem: String = comps[i + 1..].join("/");
                            let np = if rem.is_empty() { t.clone() } else { format!("{}/{}", t, rem) };
                            return self.look_d(&cur, &np, follow_last, depth + 1);
                        }
                    }
                    cur = k;
                }
            }
        }
        Look::Found(cur)
    }

    pub fn get(&self, key: &str) -> Option<&MNode> {
        self.nodes.get(key)
    }

    pub fn children(&self, dir: &str) -> Vec<String> {
        let pre = if dir.is_empty() { String::new() } else { format!("{}/", dir) };
        self.nodes.keys().filter(|k| !k.is_empty() && k.starts_with(&pre) && !k[pre.len()..].contains('/')).cloned().collect()
    }
}

// ---------------------------------------------------------------------------------------------
// glob (the subset the scenarios use: * ? and literals, per component)

fn comp_match(pat: &[u8], name: &[u8]) -> bool {
    if pat.is_empty() {
        return name.is_empty();
    }
    match pat[0] {
        b'*' => (0..=name.len()).any(|k| comp_match(&pat[1..], &name[k..])),
        b'?' => !name.is_empty() && comp_match(&pat[1..], &name[1..]),
        c => !name.is_empty() && name[0] == c && comp_match(&pat[1..], &name[1..]),
    }
}

pub fn glob_valid(p: &str) -> bool {
    // the glob crate rejects "***", and "**" not forming a whole component, and unclosed '['
    if p.contains("***") {
        return false;
    }
    for c in p.split('/') {
        if c.contains("**") && c != "**" {
            return false;
        }
    }
    let mut open = false;
    for ch in p.chars() {
        if ch == '[' {
            open = true;
        } else if ch == ']' {
            open = false;
        }
    }
    !open
}

pub fn glob_expand(fs: &MFs, cwd: &str, pat: &str) -> Vec<String> {
    // returns paths spelled like the pattern (relative stays relative)
    let comps: Vec<&str> = pat.split('/').filter(|c| !c.is_empty()).collect();
    let mut cur: Vec<(String, String)> = vec![(cwd.to_string(), String::new())]; // (key, spelled)
    for (i, c) in comps.iter().enumerate() {
        let last = i + 1 == comps.len();
        let mut next = vec![];
        for (key, sp) in &cur {
            let is_dir = match fs.look(key, ".", true) {
                Look::Found(k) => matches!(fs.get(&k).map(|n| &n.kind), Some(MKind::Dir)),
                _ => false,
            };
            if !is_dir {
                continue;
            }
            if c.contains('*') || c.contains('?') {
                for ch in fs.children(key) {
                    let name = base_name(&ch);
                    if name.starts_with('.') && !c.starts_with('.') {
                        // the glob crate's default options do match leading dots; keep them
                    }
                    if comp_match(&unesc(c), &unesc(&name)) {
                        next.push((ch.clone(), joinkey(sp, &name)));
                    }
                }
            } else {
                match fs.look(key, c, !last) {
                    Look::Found(k) => next.push((k, joinkey(sp, c))),
                    _ => {}
                }
            }
        }
        cur = next;
    }
    let mut v: Vec<String> = cur.into_iter().map(|(_, sp)| sp).collect();
    v.sort();
    v
}

// ---------------------------------------------------------------------------------------------
// the rule

fn backup_numbers(fs: &MFs, dir: &str, name: &str) -> Vec<u64> {
    // exact <name>.~N~
    let mut v = vec![];
    for ch in fs.children(dir) {
        let b = base_name(&ch);
        if let Some(rest) = b.strip_prefix(name) {
            if let Some(num) = rest.strip_prefix(".~").and_then(|r| r.strip_suffix('~')) {
                if !num.is_empty() && num.bytes().all(|c| c.is_ascii_digit()) {
                    if let Ok(n) = num.parse::<u64>() {
                        v.push(n);
                    }
                }
            }
        }
    }
    v
}

pub struct ModelCfg<'a> {
    /// for --gitignore: source-relative paths (keys inside each source dir) that git says are ignored
    pub git_ignored: Option<&'a BTreeSet<String>>,
}

pub fn expect(s: &Scenario) -> Expectation {
    expect_cfg(s, &ModelCfg { git_ignored: None })
}

pub fn expect_cfg(s: &Scenario, cfg: &ModelCfg) -> Expectation {
    let me = s.run_as.unwrap_or((0, 0));
    let fs0 = MFs::from_tree_as(&s.tree, me);
    let mut ex = Expectation { reject: None, must_fail: None, tree: fs0.nodes.clone(), nfiles: 0, total_len: 0, mapped: vec![], opts: Opts::default() };
    let o = match parse_args(&s.args) {
        Ok(o) => o,
        Err(e) => {
            ex.reject = Some(e);
            return ex;
        }
    };
    ex.opts = o.clone();
    if o.no_clobber && o.force {
        ex.reject = Some("-n with -f".into());
        return ex;
    }
    let cwd = s.cwd.clone();
    let (dest, srcpats): (String, Vec<String>) = match &o.target_dir {
        Some(d) => (d.clone(), o.paths.clone()),
        None => {
            if o.paths.is_empty() {
                ex.reject = Some("no arguments".into());
                return ex;
            }
            let mut p = o.paths.clone();
            let d = p.pop().unwrap();
            (d, p)
        }
    };
    let mut sources: Vec<String> = vec![];
    if o.glob {
        for p in &srcpats {
            if !glob_valid(p) {
                ex.reject = Some("malformed glob".into());
                return ex;
            }
        }
        for p in &srcpats {
            sources.extend(glob_expand(&fs0, &cwd, p));
        }
    } else {
        sources = srcpats.clone();
    }
    if sources.is_empty() {
        ex.reject = Some("no source".into());
        return ex;
    }
    let dest_look = fs0.look(&cwd, &dest, true);
    let dest_is_dir = matches!(&dest_look, Look::Found(k) if fs0.get(k).map(|n| n.kind == MKind::Dir).unwrap_or(false));
    let dest_exists = matches!(&dest_look, Look::Found(_));
    if !dest_is_dir {
        if sources.len() > 1 {
            ex.reject = Some("several sources, destination not a directory".into());
            return ex;
        }
    }
    // validation of every source up-front
    let mut plan: Vec<(String, String, String)> = vec![]; // (source spelling, source key (not following the last link), target base spelling)
    for src in &sources {
        let sk = match fs0.look(&cwd, src, false) {
            Look::Found(k) => k,
            _ => {
                ex.reject = Some(format!("missing source {}", src));
                return ex;
            }
        };
        // "exists" in the sense of stat(): a dangling link given as a source does not
        let followed = fs0.look(&cwd, src, true);
        let fk = match &followed {
            Look::Found(k) => Some(k.clone()),
            _ => None,
        };
        if fk.is_none() {
            ex.reject = Some(format!("missing source {}", src));
            return ex;
        }
        let src_is_dir = fs0.get(fk.as_ref().unwrap()).map(|n| n.kind == MKind::Dir).unwrap_or(false);
        if src_is_dir && !o.recursive {
            ex.reject = Some("directory without -r".into());
            return ex;
        }
        if src_is_dir && !dest_is_dir && dest_exists && sources.len() == 1 {
            ex.reject = Some("directory onto an existing file".into());
            return ex;
        }
        let bn = {
            let comps: Vec<String> = split(src).into_iter().filter(|c| c != ".").collect();
            comps.last().cloned().unwrap_or_default()
        };
        let base = if dest_is_dir && !o.no_target_dir { format!("{}/{}", dest.trim_end_matches('/'), bn) } else { dest.clone() };
        // source identical to destination (textually, as the property words it; aliases belong to C03)
        let norm = |p: &str| -> String { split(p).into_iter().filter(|c| c != ".").collect::<Vec<_>>().join("/") };
        if norm(src) == norm(&dest) && src.starts_with('/') == dest.starts_with('/') && src.starts_with("{R}") == dest.starts_with("{R}") {
            ex.reject = Some("source identical to destination".into());
            return ex;
        }
        if norm(src) == norm(&base) && src.starts_with("{R}") == base.starts_with("{R}") {
            ex.reject = Some("source identical to its mapped destination".into());
            return ex;
        }
        plan.push((src.clone(), sk, base));
    }

    // overlay
    let mut fs = MFs { nodes: fs0.nodes.clone() };
    let mut visiting: Vec<String> = vec![];
    for (src, sk, base) in &plan {
        let mut ctx = Ctx { fs0: &fs0, o: &o, cwd: &cwd, ex: &mut ex, cfg, umask: s.umask, src_root: sk.clone(), me };
        let _ = src;
        copy_entry(&mut ctx, &mut fs, sk, base, &mut visiting, true);
    }
    ex.tree = fs.nodes;
    ex
}

struct Ctx<'a, 'b> {
    fs0: &'a MFs,
    o: &'a Opts,
    cwd: &'a str,
    ex: &'a mut Expectation,
    cfg: &'a ModelCfg<'b>,
    umask: u32,
    src_root: String,
    me: (u32, u32),
}

fn fail(ex: &mut Expectation, why: String) {
    if ex.must_fail.is_none() {
        ex.must_fail = Some(why);
    }
}

/// copy initial entry `sk` (a key of fs0) to the path spelled `target` (relative to cwd)
fn copy_entry(c: &mut Ctx, fs: &mut MFs, sk: &str, target: &str, visiting: &mut Vec<String>, top: bool) {
    let node = match c.fs0.get(sk) {
        Some(n) => n.clone(),
        None => return,
    };
    if c.o.gitignore && !top {
        if let Some(ig) = c.cfg.git_ignored {
            let rel = sk.strip_prefix(&format!("{}/", c.src_root)).unwrap_or(sk);
            if ig.contains(rel) {
                return;
            }
        }
    }
    // dereference
    let (node, real_key) = if c.o.deref {
        if let MKind::Symlink(_) = node.kind {
            match c.fs0.look(&parent_of(sk), &base_name(sk), true) {
                Look::Found(k) => (c.fs0.get(&k).unwrap().clone(), k),
                _ => {
                    fail(c.ex, format!("dangling or cyclic link {} under --dereference", sk));
                    return;
                }
            }
        } else {
            (node, sk.to_string())
        }
    } else {
        (node, sk.to_string())
    };
    // where does the target live?
    let tl = fs.look(c.cwd, target, false);
    let (tkey, existing): (String, Option<MNode>) = match tl {
        Look::Found(k) => {
            let n = fs.get(&k).cloned();
            (k, n)
        }
        Look::Missing(dir, name) => (joinkey(&dir, &name), None),
        Look::Bad(why) => {
            // parent missing: the run cannot succeed
            fail(c.ex, format!("target {} unreachable: {}", target, why));
            return;
        }
    };
    let existed_initially = existing.as_ref().map(|n| matches!(n.origin, Origin::Initial | Origin::InitialDir | Origin::Open)).unwrap_or(false);
    c.ex.mapped.push((sk.to_string(), tkey.clone()));
    match &node.kind {
        MKind::Dir => {
            if visiting.contains(&real_key) {
                fail(c.ex, format!("directory cycle through {} under --dereference", sk));
                return;
            }
            match &existing {
                None => {
                    // xcp does not copy directory permissions: a new directory gets the default mode under the umask
                    fs.nodes.insert(tkey.clone(), MNode { kind: MKind::Dir, mode: Some(0o777 & !c.umask), mtime: MTime::Any, xattrs: vec![], owner: None, origin: Origin::NewDir, hl: None });
                }
                Some(e) if e.kind == MKind::Dir => {
                    if e.origin == Origin::Initial {
                        fs.nodes.get_mut(&tkey).unwrap().origin = Origin::InitialDir;
                    }
                }
                Some(e) => {
                    if let MKind::Symlink(_) = e.kind {
                        // a link to a directory in the way of a directory: the copy goes through it
                        // (dest "itself" is that directory); anything else behind the link cannot work
                        match fs.look(c.cwd, target, true) {
                            Look::Found(k) if fs.get(&k).map(|n| n.kind == MKind::Dir).unwrap_or(false) => {
                                if fs.get(&k).unwrap().origin == Origin::Initial {
                                    fs.nodes.get_mut(&k).unwrap().origin = Origin::InitialDir;
                                }
                            }
                            _ => {
                                fail(c.ex, format!("directory {} onto a link that does not lead to a directory ({})", sk, tkey));
                                fs.nodes.insert(tkey.clone(), MNode { kind: MKind::Dir, mode: None, mtime: MTime::Any, xattrs: vec![], owner: None, origin: Origin::NewDir, hl: None });
                            }
                        }
                    } else {
                        // cannot succeed; should the run claim success anyway, a directory is what belongs here
                        fail(c.ex, format!("directory {} onto existing non-directory {}", sk, tkey));
                        fs.nodes.insert(tkey.clone(), MNode { kind: MKind::Dir, mode: None, mtime: MTime::Any, xattrs: vec![], owner: None, origin: Origin::NewDir, hl: None });
                    }
                }
            }
            visiting.push(real_key.clone());
            for ch in c.fs0.children(&real_key) {
                let name = base_name(&ch);
                // children are addressed through the link's own path, as the walk does
                let child_key = ch.clone();
                copy_entry(c, fs, &child_key, &format!("{}/{}", target, name), visiting, false);
            }
            visiting.pop();
        }
        MKind::File(content) => {
            c.ex.nfiles += 1;
            c.ex.total_len += content.len();
            if c.o.no_clobber && existing.is_some() && existed_initially {
                fail(c.ex, format!("--no-clobber and {} exists", tkey));
                return;
            }
            match &existing {
                Some(e) if matches!(e.kind, MKind::Symlink(_)) => {
                    // writes through the link (or fails when it dangles into nowhere): left open, including the link's target
                    if let Look::Found(k) = fs.look(&parent_of(&tkey), &base_name(&tkey), true) {
                        if let Some(n) = fs.nodes.get_mut(&k) {
                            n.origin = Origin::Open;
                        }
                    }
                    if let MKind::Symlink(t) = &e.kind {
                        // a dangling link: its target may get created
                        if let Look::Missing(d, n) = fs.look(&parent_of(&tkey), t, true) {
                            fs.nodes.insert(joinkey(&d, &n), MNode { kind: MKind::File(content.clone()), mode: None, mtime: MTime::Any, xattrs: vec![], owner: None, origin: Origin::Open, hl: None });
                        }
                    }
                    fs.nodes.get_mut(&tkey).unwrap().origin = Origin::Open;
                    return;
                }
                Some(e) if !matches!(e.kind, MKind::File(_)) => {
                    // a directory or special file in the way of a regular file
                    if e.kind == MKind::Dir {
                        // cannot succeed; should the run claim success anyway, the file is what belongs here
                        fail(c.ex, format!("file {} onto existing directory {}", sk, tkey));
                        let below: Vec<String> = fs.nodes.keys().filter(|k| k.starts_with(&format!("{}/", tkey))).cloned().collect();
                        for k in below {
                            fs.nodes.remove(&k);
                        }
                        fs.nodes.insert(tkey.clone(), MNode { kind: MKind::File(content.clone()), mode: None, mtime: MTime::Any, xattrs: vec![], owner: None, origin: Origin::Copied, hl: None });
                    } else {
                        fs.nodes.get_mut(&tkey).unwrap().origin = Origin::Open;
                    }
                    return;
                }
                _ => {}
            }
            // backups
            let mut renamed = false;
            if let Some(e) = &existing {
                let dir = parent_of(&tkey);
                let name = base_name(&tkey);
                let nums = backup_numbers(fs, &dir, &name);
                let want = match c.o.backup.as_str() {
                    "numbered" => true,
                    "auto" => !nums.is_empty(),
                    _ => false,
                };
                if want {
                    match nums.iter().max().cloned().unwrap_or(0).checked_add(1) {
                        Some(n) => {
                            // the old file is renamed: everything about it is preserved
                            let mut b = e.clone();
                            b.origin = Origin::Initial;
                            b.hl = None;
                            fs.nodes.insert(joinkey(&dir, &format!("{}.~{}~", name, n)), b);
                            renamed = true;
                        }
                        None => {
                            fail(c.ex, "backup number overflow".into());
                            return;
                        }
                    }
                }
            }
            let fresh = existing.is_none() || renamed;
            let prev = existing.clone();
            let mode = if c.o.no_perms {
                if fresh {
                    Some(0o666 & !c.umask)
                } else {
                    prev.as_ref().and_then(|p| p.mode)
                }
            } else {
                node.mode
            };
            let mtime = if c.o.no_timestamps { MTime::Now } else { node.mtime.clone() };
            let owner = if c.o.ownership {
                node.owner
            } else if fresh {
                Some(c.me)
            } else {
                prev.as_ref().and_then(|p| p.owner)
            };
            let xattrs = if c.o.no_perms { vec![] } else { node.xattrs.clone() };
            fs.nodes.insert(tkey.clone(), MNode { kind: MKind::File(content.clone()), mode, mtime, xattrs, owner, origin: Origin::Copied, hl: None });
        }
        MKind::Symlink(t) => {
            if c.o.no_clobber && existing.is_some() && existed_initially {
                fail(c.ex, format!("--no-clobber and {} exists", tkey));
                return;
            }
            fs.nodes.insert(tkey.clone(), MNode { kind: MKind::Symlink(t.clone()), mode: None, mtime: MTime::Any, xattrs: vec![], owner: None, origin: Origin::Copied, hl: None });
        }
        MKind::Fifo | MKind::Socket | MKind::Chr(..) => {
            if c.o.no_clobber && existing.is_some() && existed_initially {
                fail(c.ex, format!("--no-clobber and {} exists", tkey));
                return;
            }
            if let Some(e) = &existing {
                if e.kind == MKind::Dir {
                    fail(c.ex, format!("special file {} onto existing directory {}", sk, tkey));
                    return;
                }
            }
            let mode = node.mode.map(|m| m & !c.umask);
            fs.nodes.insert(tkey.clone(), MNode { kind: node.kind.clone(), mode, mtime: MTime::Any, xattrs: vec![], owner: None, origin: Origin::Copied, hl: None });
        }
        MKind::Blk(..) => {
            fail(c.ex, format!("block device {}", sk));
        }
    }
}


// ---------------------------------------------------------------------------------------------
// comparison of a snapshot with the expectation

#[derive(Clone, Copy, PartialEq)]
pub enum Level {
    /// kinds, bytes, link texts
    Content,
    /// plus mode, mtime, xattrs, ownership of copied regular files; type/rdev/mode of nodes
    Meta,
}

pub fn compare(exp: &Expectation, snap: &Snap, root: &str, level: Level, t_start: i64) -> Vec<String> {
    let mut out = vec![];
    for (k, m) in &exp.tree {
        if m.origin == Origin::Open {
            continue;
        }
        let n = match snap.get(k) {
            Some(n) => n,
            None => {
                out.push(format!("missing: {} ({})", k, m.kind.ch()));
                continue;
            }
        };
        if n.kind != m.kind.ch() {
            out.push(format!("kind of {}: is {} expected {}", k, n.kind, m.kind.ch()));
            continue;
        }
        match &m.kind {
            MKind::File(c) => {
                let r = match &n.data {
                    Some(d) if c.len() <= 65536 => {
                        let e = c.bytes();
                        if *d == e {
                            Ok(())
                        } else if d.len() != e.len() {
                            Err(format!("length {} expected {}", d.len(), e.len()))
                        } else {
                            let i = (0..d.len()).find(|&i| d[i] != e[i]).unwrap();
                            Err(format!("byte {} is {:#04x} expected {:#04x}", i, d[i], e[i]))
                        }
                    }
                    _ => c.check_file(&crate::util::join(root, &unesc(k))),
                };
                if let Err(e) = r {
                    out.push(format!("content of {}: {}", k, e));
                }
            }
            MKind::Symlink(t) => {
                let want = unesc(&t.replace("{R}", root));
                if n.link.as_deref() != Some(&want[..]) {
                    out.push(format!("link text of {}: is {:?} expected {:?}", k, n.link.as_ref().map(|l| esc(l)), esc(&want)));
                }
            }
            MKind::Chr(a, b) | MKind::Blk(a, b) => {
                if level == Level::Meta || m.origin == Origin::Initial {
                    if n.rdev != libc::makedev(*a, *b) {
                        out.push(format!("device number of {}: is {}:{} expected {}:{}", k, libc::major(n.rdev), libc::minor(n.rdev), a, b));
                    }
                }
            }
            _ => {}
        }
        let check_meta = level == Level::Meta && (m.origin == Origin::Copied || (m.origin == Origin::NewDir && m.mode.is_some()));
        if check_meta || m.origin == Origin::Initial {
            if let Some(mode) = m.mode {
                if !matches!(m.kind, MKind::Symlink(_)) && n.mode != mode {
                    out.push(format!("mode of {}: is {:04o} expected {:04o}", k, n.mode, mode));
                }
            }
            if matches!(m.kind, MKind::File(_)) || m.origin == Origin::Initial {
                match m.mtime {
                    MTime::At(s, ns) => {
                        if n.mtime != (s, ns as i64) && !(m.origin == Origin::Initial && m.kind == MKind::Dir) {
                            out.push(format!("mtime of {}: is {}.{:09} expected {}.{:09}", k, n.mtime.0, n.mtime.1, s, ns));
                        }
                    }
                    MTime::Now => {
                        if n.mtime.0 < t_start - 1 {
                            out.push(format!("mtime of {}: is {} expected current (>= {})", k, n.mtime.0, t_start - 1));
                        }
                    }
                    MTime::Any => {}
                }
            }
            if let Some((u, g)) = m.owner {
                if (n.uid, n.gid) != (u, g) {
                    out.push(format!("owner of {}: is {}:{} expected {}:{}", k, n.uid, n.gid, u, g));
                }
            }
            for (xk, xv) in &m.xattrs {
                match n.xattrs.get(xk) {
                    Some(v) if v == xv => {}
                    Some(_) => out.push(format!("xattr {} of {}: value differs", xk, k)),
                    None => out.push(format!("xattr {} of {}: missing", xk, k)),
                }
            }
            if m.origin == Origin::Initial {
                // nothing may have been added either
                for xk in n.xattrs.keys() {
                    if !m.xattrs.iter().any(|(k2, _)| k2 == xk) {
                        out.push(format!("xattr {} of {}: appeared", xk, k));
                    }
                }
            }
        }
    }
    for k in snap.keys() {
        if !exp.tree.contains_key(k) {
            // below an Open entry anything goes
            let mut open = false;
            let mut a = parent_of(k);
            loop {
                if let Some(m) = exp.tree.get(&a) {
                    if m.origin == Origin::Open {
                        open = true;
                        break;
                    }
                }
                if a.is_empty() {
                    break;
                }
                a = parent_of(&a);
            }
            if !open {
                out.push(format!("unexpected entry: {} ({})", k, snap[k].kind));
            }
        }
    }
    out
}

/// "Initial" entries of the expectation that are not where they were, or changed: the untouched rule,
/// applicable whatever the exit status. `before` supplies ctime / inode / nlink.
pub fn untouched(exp: &Expectation, before: &Snap, after: &Snap) -> Vec<String> {
    let mut out = vec![];
    // paths that the run may legitimately create or change
    let targets: BTreeSet<&String> = exp.mapped.iter().map(|(_, t)| t).collect();
    for (k, b) in before {
        let m = exp.tree.get(k);
        let origin = m.map(|m| m.origin.clone());
        if targets.contains(k) && !matches!(origin, Some(Origin::Initial)) {
            continue;
        }
        if matches!(origin, Some(Origin::Open)) {
            continue;
        }
        let a = match after.get(k) {
            Some(a) => a,
            None => {
                // a file that gets renamed to a backup leaves its path only if the path is a target
                out.push(format!("pre-existing {} disappeared", k));
                continue;
            }
        };
        if b.kind == 'd' {
            if a.kind != 'd' {
                out.push(format!("pre-existing directory {} became {}", k, a.kind));
            }
            // directories that receive entries change their times and link counts; the others must not
            let receives = exp.mapped.iter().any(|(_, t)| parent_of(t) == *k) || exp.tree.keys().any(|t| parent_of(t) == *k && !before.contains_key(t));
            if !receives {
                if let Some(d) = b.diff_all(a) {
                    out.push(format!("bystander directory {} changed: {}", k, d));
                }
            } else if (b.mode, b.uid, b.gid, &b.xattrs) != (a.mode, a.uid, a.gid, &a.xattrs) {
                out.push(format!("directory {} changed mode/owner/xattrs", k));
            }
            continue;
        }
        if let Some(d) = b.diff_all(a) {
            out.push(format!("pre-existing {} changed: {}", k, d));
        }
    }
    out
}
