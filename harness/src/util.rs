//! small helpers: byte-string escaping, hashing, deterministic content

pub struct Fnv(u64);
impl Fnv {
    pub fn new() -> Fnv {
        Fnv(0xcbf29ce484222325)
    }
    pub fn write(&mut self, b: &[u8]) {
        for &c in b {
            self.0 ^= c as u64;
            self.0 = self.0.wrapping_mul(0x100000001b3);
        }
        // separator so that ("ab","c") != ("a","bc")
        self.0 ^= 0xff;
        self.0 = self.0.wrapping_mul(0x100000001b3);
    }
    /// no separator: for streams whose chunking must not matter
    pub fn write_raw(&mut self, b: &[u8]) {
        for &c in b {
            self.0 ^= c as u64;
            self.0 = self.0.wrapping_mul(0x100000001b3);
        }
    }
    pub fn finish(&self) -> u64 {
        self.0
    }
}

pub fn hash_bytes(b: &[u8]) -> u64 {
    // two independent lanes folded: cheap, good enough to tell files apart
    let mut h1: u64 = 0xcbf29ce484222325;
    let mut h2: u64 = 0x9e3779b97f4a7c15;
    for &c in b {
        h1 ^= c as u64;
        h1 = h1.wrapping_mul(0x100000001b3);
        h2 = (h2 ^ (c as u64)).wrapping_mul(0xff51afd7ed558ccd).rotate_left(31);
    }
    h1 ^ h2.rotate_left(17)
}

/// printable, lossless rendering of a byte string (\\xNN for anything outside printable ASCII, and for backslash)
pub fn esc(b: &[u8]) -> String {
    let mut s = String::with_capacity(b.len());
    for &c in b {
        if c == b'\\' {
            s.push_str("\\\\");
        } else if (0x20..0x7f).contains(&c) {
            s.push(c as char);
        } else {
            s.push_str(&format!("\\x{:02x}", c));
        }
    }
    s
}

pub fn unesc(s: &str) -> Vec<u8> {
    let b = s.as_bytes();
    let mut out = vec![];
    let mut i = 0;
    while i < b.len() {
        if b[i] == b'\\' && i + 1 < b.len() {
            if b[i + 1] == b'\\' {
                out.push(b'\\');
                i += 2;
                continue;
            }
            if b[i + 1] == b'x' && i + 3 < b.len() {
                if let Ok(v) = u8::from_str_radix(&s[i + 2..i + 4], 16) {
                    out.push(v);
                    i += 4;
                    continue;
                }
            }
        }
        out.push(b[i]);
        i += 1;
    }
    out
}

/// deterministic, never-zero content byte at `off` for generator `seed`
#[inline]
pub fn gen_byte(seed: u64, off: u64) -> u8 {
    let mut x = off.wrapping_add(seed.wrapping_mul(0x9e3779b97f4a7c15)).wrapping_add(0x1234567);
    x ^= x >> 33;
    x = x.wrapping_mul(0xff51afd7ed558ccd);
    x ^= x >> 29;
    1 + (x % 255) as u8
}

pub fn gen_bytes(seed: u64, off: u64, len: usize) -> Vec<u8> {
    (0..len as u64).map(|i| gen_byte(seed, off + i)).collect()
}

pub fn os(b: &[u8]) -> std::ffi::OsString {
    use std::os::unix::ffi::OsStringExt;
    std::ffi::OsString::from_vec(b.to_vec())
}

pub fn pb(b: &[u8]) -> std::path::PathBuf {
    std::path::PathBuf::from(os(b))
}

pub fn join(root: &str, rel: &[u8]) -> std::path::PathBuf {
    let mut v = root.as_bytes().to_vec();
    if !rel.is_empty() {
        v.push(b'/');
        v.extend_from_slice(rel);
    }
    pb(&v)
}
