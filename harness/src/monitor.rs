//! temporal oracles over the totally ordered trace of one execution

use crate::sup::RunResult;
use std::collections::BTreeMap;

/// creation of an entry failed with ENOENT: something was created inside a directory before the
/// directory existed (on correct code the walker creates every directory before queueing its contents)
pub fn created_before_parent(res: &RunResult, under: &str) -> Vec<String> {
    let mut v = vec![];
    for e in &res.events {
        let creating = match e.name.as_str() {
            "openat" | "open" => {
                let flags = if e.name == "openat" { e.a[2] } else { e.a[1] } as i32;
                flags & libc::O_CREAT != 0
            }
            "symlink" | "symlinkat" | "mknod" | "mknodat" => true,
            _ => false,
        };
        if creating && e.inj == 0 && e.ret == -(libc::ENOENT as i64) {
            if let Some(r) = &e.rel {
                if r.starts_with(under) {
                    v.push(format!("{} of {} failed with ENOENT: its directory did not exist yet (decision #{})", e.name, r, e.idx));
                }
            }
        }
    }
    v
}

/// a write-class call on a destination inode after the first fchmod/utimensat/fchown on it
pub fn write_after_metadata(res: &RunResult) -> Vec<String> {
    let mut first_meta: BTreeMap<(u64, String), usize> = BTreeMap::new();
    let mut v = vec![];
    for e in &res.events {
        if e.ret < 0 {
            continue;
        }
        match e.name.as_str() {
            "fchmod" | "fchown" => {
                first_meta.entry((e.ino, e.rel.clone().unwrap_or_default())).or_insert(e.idx);
            }
            "utimensat" if e.fd >= 0 => {
                first_meta.entry((e.ino, e.rel.clone().unwrap_or_default())).or_insert(e.idx);
            }
            _ => {
                if let Some((ino, rel)) = e.write_target() {
                    if let Some(m) = first_meta.get(&(ino, rel.to_string())) {
                        v.push(format!("{} on {} at decision #{} after its metadata was applied at #{}", e.name, rel, e.idx, m));
                    }
                }
            }
        }
    }
    v
}

/// for each destination path in `files`: an fsync/fdatasync after the last write-class call on it
pub fn fsync_after_last_write(res: &RunResult, files: &[String]) -> Vec<String> {
    let mut v = vec![];
    for f in files {
        let mut last_write: Option<usize> = None;
        let mut last_sync: Option<usize> = None;
        let mut pos = 0usize;
        for e in &res.events {
            pos += 1;
            if let Some((_, rel)) = e.write_target() {
                if rel == f && e.ret >= 0 {
                    last_write = Some(pos);
                }
            }
            if (e.name == "fsync" || e.name == "fdatasync") && e.rel.as_deref() == Some(f.as_str()) && e.ret == 0 {
                last_sync = Some(pos);
            }
            // (re)creation of the file counts as a write to it
            if (e.name == "openat" || e.name == "open") && e.rel.as_deref() == Some(f.as_str()) && e.ret >= 0 {
                let flags = if e.name == "openat" { e.a[2] } else { e.a[1] } as i32;
                if flags & (libc::O_CREAT | libc::O_TRUNC) != 0 {
                    last_write = Some(pos);
                }
            }
        }
        match (last_write, last_sync) {
            (Some(w), Some(s)) if s > w => {}
            (None, _) => v.push(format!("{} was never written or created", f)),
            (Some(_), None) => v.push(format!("no fsync on {}", f)),
            (Some(w), Some(s)) => v.push(format!("last fsync on {} (event {}) precedes its last write (event {})", f, s, w)),
        }
    }
    v
}

/// any open/read of these (special) source paths
pub fn opened_or_read(res: &RunResult, paths: &[String]) -> Vec<String> {
    let mut v = vec![];
    for e in &res.events {
        if matches!(e.name.as_str(), "openat" | "open" | "read" | "pread64" | "readv") {
            if let Some(r) = &e.rel {
                if paths.iter().any(|p| p == r) {
                    let flags = if e.name == "openat" { e.a[2] } else { e.a[1] } as i32;
                    if e.name.starts_with("open") && flags & libc::O_PATH != 0 {
                        continue;
                    }
                    v.push(format!("{} of special file {} (decision #{})", e.name, r, e.idx));
                }
            }
        }
    }
    v
}
