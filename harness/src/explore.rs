//! parallel exhaustive exploration: deviation-bounded schedule search, fault / kill enumeration,
//! scenario batches. Every job is one supervised execution of the real binary.

use crate::scen::{Bins, Scenario, Snap, Worker};
use crate::sup::{Fault, Outcome, Policy, RunResult, RunSpec};
use std::collections::{BTreeMap, HashSet};
use std::sync::Arc;
use std::time::Instant;

pub struct Pool {
    pub n: usize,
    pub bins: Bins,
    pub deadline: Option<Instant>,
}

/// take a snapshot of the sandbox before each execution as well (needed by the "untouched" oracles)
pub static SNAP_BEFORE: std::sync::atomic::AtomicBool = std::sync::atomic::AtomicBool::new(true);

impl Pool {
    pub fn expired(&self) -> bool {
        self.deadline.map(|d| Instant::now() > d).unwrap_or(false)
    }
}

/// Generic work queue: each job may produce more jobs. LIFO, so the frontier stays small.
///
/// Workers are forked *processes*, each a single-threaded ptrace tracer: with tracer threads inside
/// one process every tracee stop wakes every waiting tracer (they share one wait queue) and the
/// kernel's task-list lock becomes the bottleneck (measured: 16 threads were barely faster than 1).
/// Closures are inherited through fork; jobs travel to the workers and new jobs / the accumulators
/// travel back as JSON lines over socket pairs.
pub fn par_work<J, A>(pool: &Pool, initial: Vec<J>, mk_acc: impl Fn() -> A, f: impl Fn(&Worker, J, &mut Vec<J>, &mut A)) -> Vec<A>
where
    J: serde::Serialize + serde::de::DeserializeOwned,
    A: serde::Serialize + serde::de::DeserializeOwned,
{
    use std::io::{BufRead, BufReader, Write};
    use std::os::unix::io::AsRawFd;
    use std::os::unix::net::UnixStream;
    let n = pool.n.max(1).min(initial.len().max(1) * 64).min(64);
    let _ = std::io::stdout().flush();
    let _ = std::io::stderr().flush();
    struct Child {
        pid: libc::pid_t,
        tx: UnixStream,
        rx: BufReader<UnixStream>,
        busy: bool,
        done: bool,
    }
    let mut kids: Vec<Child> = vec![];
    for id in 0..n {
        let (a, b) = UnixStream::pair().expect("socketpair");
        let pid = unsafe { libc::fork() };
        if pid < 0 {
            panic!("fork failed");
        }
        if pid == 0 {
            // worker process
            drop(a);
            for k in kids.drain(..) {
                drop(k);
            }
            crate::sup::after_fork_in_worker();
            crate::sup::pin_to_cpu(id);
            let code = std::panic::catch_unwind(std::panic::AssertUnwindSafe(|| {
                let w = Worker::new(id, &pool.bins);
                let mut acc = mk_acc();
                let mut rd = BufReader::new(b.try_clone().expect("clone"));
                let mut wr = b;
                let mut line = String::new();
                loop {
                    line.clear();
                    if rd.read_line(&mut line).unwrap_or(0) == 0 {
                        break;
                    }
                    if line.trim() == "END" {
                        let out = serde_json::to_string(&acc).expect("acc json");
                        let _ = wr.write_all(out.as_bytes());
                        let _ = wr.write_all(b"\n");
                        break;
                    }
                    let job: J = serde_json::from_str(&line).expect("job json");
                    let mut more = vec![];
                    f(&w, job, &mut more, &mut acc);
                    let out = serde_json::to_string(&more).expect("jobs json");
                    let _ = wr.write_all(out.as_bytes());
                    let _ = wr.write_all(b"\n");
                }
            }));
            unsafe { libc::_exit(if code.is_ok() { 0 } else { 3 }) };
        }
        drop(b);
        let rx = BufReader::new(a.try_clone().expect("clone"));
        kids.push(Child { pid, tx: a, rx, busy: false, done: false });
    }
    let mut queue: Vec<J> = initial;
    let mut crashed = 0usize;
    loop {
        // hand out work
        for k in kids.iter_mut() {
            if !k.busy && !k.done {
                if let Some(j) = queue.pop() {
                    let mut out = serde_json::to_string(&j).expect("job json");
                    out.push('\n');
                    if k.tx.write_all(out.as_bytes()).is_err() {
                        k.done = true;
                        crashed += 1;
                        continue;
                    }
                    k.busy = true;
                }
            }
        }
        if !kids.iter().any(|k| k.busy) {
            break;
        }
        // wait for any busy worker
        let mut pfds: Vec<libc::pollfd> = kids.iter().filter(|k| k.busy).map(|k| libc::pollfd { fd: k.tx.as_raw_fd(), events: libc::POLLIN, revents: 0 }).collect();
        let r = unsafe { libc::poll(pfds.as_mut_ptr(), pfds.len() as libc::nfds_t, 1000) };
        if r <= 0 {
            continue;
        }
        for pf in pfds {
            if pf.revents == 0 {
                continue;
            }
            let k = kids.iter_mut().find(|k| k.tx.as_raw_fd() == pf.fd).unwrap();
            let mut line = String::new();
            match k.rx.read_line(&mut line) {
                Ok(nn) if nn > 0 => {
                    let more: Vec<J> = serde_json::from_str(&line).expect("jobs json");
                    queue.extend(more);
                    k.busy = false;
                }
                _ => {
                    // worker died (engine panic): its job is lost, which is a machinery error
                    k.busy = false;
                    k.done = true;
                    crashed += 1;
                }
            }
        }
    }
    let mut accs = vec![];
    for k in kids.iter_mut() {
        if k.done {
            continue;
        }
        if k.tx.write_all(b"END\n").is_err() {
            crashed += 1;
            continue;
        }
        let mut line = String::new();
        match k.rx.read_line(&mut line) {
            Ok(nn) if nn > 0 => accs.push(serde_json::from_str(&line).expect("acc json")),
            _ => crashed += 1,
        }
    }
    for k in kids.iter() {
        let mut st = 0;
        unsafe { libc::waitpid(k.pid, &mut st, 0) };
    }
    if crashed > 0 {
        WORKER_CRASHES.fetch_add(crashed, std::sync::atomic::Ordering::SeqCst);
    }
    accs
}

/// worker processes that died (engine panic); reported as a machinery error by the caller
pub static WORKER_CRASHES: std::sync::atomic::AtomicUsize = std::sync::atomic::AtomicUsize::new(0);

pub struct Exec {
    pub spec: RunSpec,
    pub res: RunResult,
    /// sandbox before the run (empty when SNAP_BEFORE is off)
    pub before: Snap,
    /// sandbox after the run
    pub snap: Snap,
}

#[derive(Default, Clone)]
pub struct Judgement {
    pub violations: Vec<String>,
    /// canonical rendering of what the property can observe of this execution
    pub outcome_key: String,
    /// counts towards distinct_nontrivial
    pub nontrivial: bool,
}

#[derive(Clone, serde::Serialize, serde::Deserialize)]
pub struct Violation {
    pub scen: Scenario,
    pub spec: RunSpec,
    pub msgs: Vec<String>,
    pub outcome: String,
    pub trace: Vec<String>,
    pub snap: Vec<String>,
    pub stderr: String,
    pub hit_sites: Vec<String>,
}

#[derive(Default, serde::Serialize, serde::Deserialize)]
pub struct Stats {
    pub execs: usize,
    pub decision_points: usize,
    pub steps: usize,
    pub stops: usize,
    pub traces: HashSet<u64>,
    pub nontrivial_traces: HashSet<u64>,
    pub outcomes: BTreeMap<String, usize>,
    pub exits: BTreeMap<String, usize>,
    pub violations: Vec<Violation>,
    pub engine_errors: Vec<String>,
    pub capped: bool,
    pub max_devs_completed: usize,
    pub peak_fds: i64,
    pub faults_requested: usize,
    pub faults_reached: usize,
    /// executions re-run because the wall-clock watchdog killed them (machine stall)
    #[serde(default)]
    pub watchdog_reruns: usize,
    pub samples: Vec<String>,
}

impl Stats {
    pub fn merge(&mut self, o: Stats) {
        self.execs += o.execs;
        self.decision_points += o.decision_points;
        self.steps += o.steps;
        self.stops += o.stops;
        self.traces.extend(o.traces);
        self.nontrivial_traces.extend(o.nontrivial_traces);
        for (k, v) in o.outcomes {
            *self.outcomes.entry(k).or_insert(0) += v;
        }
        for (k, v) in o.exits {
            *self.exits.entry(k).or_insert(0) += v;
        }
        for v in o.violations {
            if self.violations.len() < 400 {
                self.violations.push(v);
            }
        }
        for e in o.engine_errors {
            if self.engine_errors.len() < 20 {
                self.engine_errors.push(e);
            }
        }
        self.capped |= o.capped;
        self.peak_fds = self.peak_fds.max(o.peak_fds);
        self.faults_requested += o.faults_requested;
        self.faults_reached += o.faults_reached;
        self.watchdog_reruns += o.watchdog_reruns;
        for s in o.samples {
            if self.samples.len() < 6 {
                self.samples.push(s);
            }
        }
    }
    pub fn record(&mut self, scen: &Scenario, ex: &Exec, j: &Judgement) {
        self.execs += 1;
        self.decision_points += ex.res.decisions.len();
        self.steps += ex.res.steps;
        self.stops += ex.res.stops;
        let th = ex.res.trace_hash();
        self.traces.insert(th);
        if j.nontrivial {
            self.nontrivial_traces.insert(th ^ crate::util::hash_bytes(scen.name.as_bytes()));
        }
        *self.outcomes.entry(j.outcome_key.clone()).or_insert(0) += 1;
        *self.exits.entry(ex.res.outcome.short()).or_insert(0) += 1;
        self.peak_fds = self.peak_fds.max(ex.res.peak_fds);
        if !ex.spec.faults.is_empty() {
            self.faults_requested += 1;
            if ex.res.fault_hits.iter().any(|&h| h > 0) {
                self.faults_reached += 1;
            }
        }
        if !j.violations.is_empty() && self.violations.len() < 400 {
            self.violations.push(Violation {
                scen: scen.clone(),
                spec: ex.spec.clone(),
                msgs: j.violations.clone(),
                outcome: ex.res.outcome.short(),
                trace: ex.res.trace_lines(),
                snap: crate::scen::render(&ex.snap),
                stderr: String::from_utf8_lossy(&ex.res.stderr).chars().take(2000).collect(),
                hit_sites: ex.res.hit_sites.clone(),
            });
        }
        if self.samples.len() < 3 {
            self.samples.push(format!("{} :: policy={:?} devs={:?} faults={} kill={:?} -> {}", scen.cmdline(), ex.spec.policy, ex.spec.devs, ex.spec.faults.len(), ex.spec.kill_at, ex.res.outcome.short()));
        }
    }
}

pub type Judge<'a> = &'a (dyn Fn(&Worker, &Scenario, &Exec) -> Judgement + Sync);

/// one supervised execution + snapshot + judgement, recorded into stats
pub fn run_one(w: &Worker, scen: &Scenario, spec: &RunSpec, judge: Judge, st: &mut Stats) -> Option<Exec> {
    let mut before = Snap::new();
    let mut tries = 0;
    let r = loop {
        let r = w.prepare(scen).and_then(|_| {
            if SNAP_BEFORE.load(std::sync::atomic::Ordering::Relaxed) {
                before = w.snapshot(scen);
            }
            w.exec(scen, spec)
        });
        // killed by the wall-clock watchdog: a stall of the machine, unless it repeats from a fresh sandbox
        if matches!(&r, Ok(res) if res.watchdog) && tries < crate::scen::WATCHDOG_RETRIES {
            tries += 1;
            st.watchdog_reruns += 1;
            continue;
        }
        break r;
    };
    match r {
        Ok(res) => {
            let snap = w.snapshot(scen);
            let ex = Exec { spec: spec.clone(), res, before, snap };
            let j = judge(w, scen, &ex);
            st.record(scen, &ex, &j);
            Some(ex)
        }
        Err(e) => {
            if st.engine_errors.len() < 20 {
                st.engine_errors.push(format!("{} [{}] devs={:?}: {}", scen.name, scen.cmdline(), spec.devs, e));
            }
            None
        }
    }
}

/// children of an execution in the deviation tree: one more deviation at a later decision
pub fn children(ex: &Exec) -> Vec<RunSpec> {
    children_at(ex, None)
}

/// like `children`, but deviations only at the decision indices in `only` (a focused search, e.g. "pre-empt a
/// thread only where it is about to write a log line")
pub fn children_at(ex: &Exec, only: Option<&std::collections::HashSet<usize>>) -> Vec<RunSpec> {
    children_sel(ex, only, false)
}

/// `timers_only`: the only deviations are timed waits expiring first
pub fn children_sel(ex: &Exec, only: Option<&std::collections::HashSet<usize>>, timers_only: bool) -> Vec<RunSpec> {
    let start = ex.spec.devs.last().map(|d| d.0 + 1).unwrap_or(0);
    let mut out = vec![];
    for i in start..ex.res.decisions.len() {
        if let Some(o) = only {
            if !o.contains(&i) {
                continue;
            }
        }
        let d = &ex.res.decisions[i];
        for &alt in &d.enabled {
            if timers_only && !d.timers.contains(&alt) {
                continue;
            }
            if alt != d.default {
                let mut s = ex.spec.clone();
                s.devs.push((i, ex.res.threads[alt].clone()));
                out.push(s);
            }
        }
    }
    out
}

/// All executions of each (scenario, base spec) with at most `bound` scheduling deviations.
pub fn explore(pool: &Pool, jobs: Vec<(Arc<Scenario>, RunSpec, usize)>, judge: Judge) -> Stats {
    // job = (scenario, spec, remaining deviation budget)
    let accs = par_work(pool, jobs, Stats::default, |w, (scen, spec, budget): (Arc<Scenario>, RunSpec, usize), more, st: &mut Stats| {
        if pool.expired() {
            st.capped = true;
            return;
        }
        if let Some(ex) = run_one(w, &scen, &spec, judge, st) {
            // a hang is already a verdict: exploring around it would only spin through the step budget again
            if budget > 0 && !matches!(ex.res.outcome, Outcome::Killed) && !ex.res.outcome.is_hang() {
                // "@logpoints" in the scenario name: a focused search that pre-empts only where the running thread
                // is about to write a log line or to pass a hook marker
                //   "@atomicpoints": only where it is about to execute an atomic instruction of xcp's own code or a marker
                let only: Option<std::collections::HashSet<usize>> = if scen.name.contains("@logpoints") {
                    Some(ex.res.events.iter().filter(|e| e.name == "write:stdio" || e.name == "MARK").map(|e| e.idx).collect())
                } else if scen.name.contains("@atomicpoints") {
                    Some(ex.res.events.iter().filter(|e| e.name == "ATOMIC" || e.name == "MARK").map(|e| e.idx).collect())
                } else if scen.name.contains("@afterfault") {
                    //   "@afterfault": only after the first altered system call
                    match ex.res.events.iter().find(|e| e.inj != 0).map(|e| e.idx) {
                        Some(fi) => Some((fi..ex.res.decisions.len()).collect()),
                        None => Some(Default::default()),
                    }
                } else {
                    None
                };
                //   "@timerpoints": the only deviations are timed waits that expire before what they wait for happens
                for c in children_sel(&ex, only.as_ref(), scen.name.contains("@timerpoints")) {
                    more.push((scen.clone(), c, budget - 1));
                }
            }
        }
    });
    let mut total = Stats::default();
    for a in accs {
        total.merge(a);
    }
    total
}

/// plain batch: each job executed once
pub fn batch(pool: &Pool, jobs: Vec<(Arc<Scenario>, RunSpec)>, judge: Judge) -> Stats {
    explore(pool, jobs.into_iter().map(|(s, r)| (s, r, 0)).collect(), judge)
}

/// injection sites of a recorded execution: (thread path id, call name, per-thread ordinal, subject)
pub fn sites(res: &RunResult, want: &dyn Fn(&crate::sup::Ev) -> bool) -> Vec<(String, String, usize, String)> {
    let mut cnt: BTreeMap<(usize, String), usize> = BTreeMap::new();
    let mut out = vec![];
    for e in &res.events {
        if matches!(e.name.as_str(), "SPAWN" | "DEAD" | "BLOCK" | "WAKE" | "MARK" | "exit_group" | "exit" | "clone" | "clone3") {
            continue;
        }
        let c = cnt.entry((e.th, e.name.clone())).or_insert(0);
        *c += 1;
        if want(e) {
            out.push((res.threads[e.th].clone(), e.name.clone(), *c, e.rel2.clone().or(e.rel.clone()).unwrap_or_default()));
        }
    }
    out
}

pub fn fault_at(site: &(String, String, usize, String), action: crate::sup::Action) -> Fault {
    Fault { call: site.1.clone(), thread: Some(site.0.clone()), nth: Some(site.2), path_contains: None, action }
}

pub fn both_policies() -> Vec<Policy> {
    vec![Policy::P0, Policy::P1]
}
