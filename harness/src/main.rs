#![allow(dead_code)]
mod explore;
mod model;
mod monitor;
mod props;
mod scen;
mod sup;
mod util;

use props::{Ctx, Tier};
use scen::*;
use std::sync::Arc;
use sup::*;

fn verif_dir() -> String {
    std::env::var("XV_VERIF").unwrap_or_else(|_| "/verif".to_string())
}

/// engine self-test: must find the toy lost update, must not find one under a mutex, must see the
/// AB/BA deadlock, and a recorded schedule must replay identically twice. Err => engine unavailable.
fn selftest(bins: &Bins, verbose: bool) -> Result<String, String> {
    if bins.toy.is_empty() {
        return Err("toy binary not configured".into());
    }
    let pool = props::mk_pool(bins, 4, None);
    let mk = |mode: &str| {
        let mut s = Scenario::new(&format!("toy-{}", mode), vec![Entry::file("ctr", "0")], &[mode]);
        s.prog = Prog::Toy;
        Arc::new(s)
    };
    let judge = |_w: &Worker, _s: &Scenario, ex: &explore::Exec| -> explore::Judgement {
        let ctr = ex.snap.get("ctr").and_then(|n| n.data.clone()).map(|d| String::from_utf8_lossy(&d).to_string()).unwrap_or_default();
        explore::Judgement { violations: vec![], outcome_key: format!("{} ctr={}", ex.res.outcome.short(), ctr), nontrivial: true }
    };
    let st = explore::explore(&pool, vec![(mk("lost"), RunSpec::base(Policy::P0), 1)], &judge);
    if !st.engine_errors.is_empty() {
        return Err(format!("engine error: {}", st.engine_errors[0]));
    }
    if verbose {
        eprintln!("selftest lost: {} executions, outcomes {:?}", st.execs, st.outcomes);
    }
    if !st.outcomes.contains_key("exit0 ctr=1") || !st.outcomes.contains_key("exit0 ctr=2") {
        return Err(format!("lost-update toy: expected both ctr=1 and ctr=2 among outcomes, got {:?}", st.outcomes));
    }
    let n_lost = st.execs;
    let st = explore::explore(&pool, vec![(mk("mutex"), RunSpec::base(Policy::P0), 2)], &judge);
    if verbose {
        eprintln!("selftest mutex: {} executions, outcomes {:?}", st.execs, st.outcomes);
    }
    if st.outcomes.len() != 1 || !st.outcomes.contains_key("exit0 ctr=2") || !st.engine_errors.is_empty() {
        return Err(format!("mutex toy: expected the single outcome ctr=2, got {:?} errors {:?}", st.outcomes, st.engine_errors));
    }
    let n_mutex = st.execs;
    let st = explore::explore(&pool, vec![(mk("dead"), RunSpec::base(Policy::P0), 1)], &judge);
    if verbose {
        eprintln!("selftest dead: {} executions, outcomes {:?}", st.execs, st.outcomes);
    }
    if !st.outcomes.keys().any(|k| k.starts_with("DEADLOCK")) || !st.engine_errors.is_empty() {
        return Err(format!("deadlock toy: no deadlock found, got {:?} errors {:?}", st.outcomes, st.engine_errors));
    }
    // replay determinism: the same deviation list twice gives the same trace
    let w = Worker::new(160, bins);
    let base = w.run(&mk("lost"), &RunSpec::base(Policy::P0))?;
    let kids = explore::children(&explore::Exec { spec: RunSpec::base(Policy::P0), res: base, before: Default::default(), snap: Default::default() });
    let spec = kids.into_iter().nth(3).ok_or("no deviation available in toy")?;
    let a = w.run(&mk("lost"), &spec)?;
    let b = w.run(&mk("lost"), &spec)?;
    if a.trace_hash() != b.trace_hash() || a.trace_lines() != b.trace_lines() {
        for (x, y) in a.trace_lines().iter().zip(b.trace_lines().iter()) {
            if x != y {
                eprintln!("  A: {}\n  B: {}", x, y);
            }
        }
        return Err(format!("replaying one schedule twice gave different traces ({} vs {} events)", a.events.len(), b.events.len()));
    }
    Ok(format!("selftest ok: lost-update found in {} executions, mutex clean over {}, deadlock found, replay deterministic", n_lost, n_mutex))
}

/// the supervisor must not change what the program does: free-running vs supervised
fn transparency(bins: &Bins) -> Result<(), String> {
    let w = Worker::new(161, bins);
    for s in [props::sets::s1(2), props::sets::s2(2, 4), props::sets::s3("parblock", 2)] {
        w.prepare(&s)?;
        let (code, _) = w.exec_free(&s)?;
        let free = w.snapshot(&s);
        let r = w.run(&s, &RunSpec::base(Policy::P0))?;
        let sup = w.snapshot(&s);
        if Outcome::Exited(code) != r.outcome {
            return Err(format!("transparency: {} exits {} free-running but {:?} supervised", s.name, code, r.outcome));
        }
        let key = |sn: &Snap| -> Vec<(String, char, u64, u32, Option<Vec<u8>>)> { sn.iter().map(|(k, n)| (k.clone(), n.kind, n.hash, if n.kind == 'f' { n.mode } else { 0 }, n.link.clone())).collect() };
        if key(&free) != key(&sup) {
            return Err(format!("transparency: {} leaves a different tree free-running and supervised", s.name));
        }
    }
    Ok(())
}

fn main() {
    let args: Vec<String> = std::env::args().collect();
    let _ = scratch_base(); // fixes the scratch directory's name before any worker is forked
    let bins = Bins::from_env();
    let code = match args.get(1).map(|s| s.as_str()) {
        Some("selftest") => match selftest(&bins, true).and_then(|m| transparency(&bins).map(|_| m)) {
            Ok(m) => {
                println!("{}", m);
                0
            }
            Err(e) => {
                eprintln!("ENGINE UNAVAILABLE: {}", e);
                2
            }
        },
        Some("check") => {
            let prop = args.get(2).cloned().unwrap_or_default();
            let tier = match args.get(3).map(|s| s.as_str()) {
                Some("thorough") => Tier::Thorough,
                _ => Tier::Quick,
            };
            let seed: i64 = std::env::var("VERIF_SEED").ok().and_then(|s| s.parse().ok()).unwrap_or(0);
            let n: usize = std::env::var("XV_WORKERS").ok().and_then(|s| s.parse().ok()).unwrap_or_else(|| std::thread::available_parallelism().map(|n| n.get()).unwrap_or(8).min(32));
            let budget: Option<u64> = std::env::var("XV_BUDGET_S").ok().and_then(|s| s.parse().ok());
            props::sets::ATOMIC_AVAILABLE.store(!bins.xcp_o1.is_empty() && !bins.o1_breakpoints.is_empty(), std::sync::atomic::Ordering::Relaxed);
            let ctx = Ctx { prop: prop.clone(), tier, pool: props::mk_pool(&bins, n, budget), t0: std::time::Instant::now(), seed, verif_dir: verif_dir(), repo_dir: std::env::var("XV_REPO").unwrap_or_else(|_| "/repo".into()) };
            if let Err(e) = selftest(&bins, false).and_then(|_| transparency(&bins)) {
                eprintln!("ENGINE UNAVAILABLE: {}", e);
                cleanup_scratch();
                std::process::exit(2);
            }
            let rep = match prop.as_str() {
                "C01" => props::c01::run(&ctx),
                "C02" => props::c02::run(&ctx),
                "C03" => props::c03::run(&ctx),
                "C04" => props::c04::run(&ctx),
                "C05" => props::c05::run(&ctx),
                "C06" => props::c06::run(&ctx),
                "C07" => props::c07::run(&ctx),
                "C08" => props::c08::run(&ctx),
                "C09" => props::c09::run(&ctx),
                "C10" => props::c10::run(&ctx),
                "C11" => props::c11::run(&ctx),
                "C12" => props::c12::run(&ctx),
                "C13" => props::c13::run(&ctx),
                "C14" => props::c14::run(&ctx),
                "C15" => props::c15::run(&ctx),
                "C16" => props::c16::run(&ctx),
                "C17" => props::c17::run(&ctx),
                "C18" => props::c18::run(&ctx),
                "C19" => props::c19::run(&ctx),
                "C20" => props::c20::run(&ctx),
                _ => {
                    eprintln!("unknown property {}", prop);
                    std::process::exit(2);
                }
            };
            props::finish(&ctx, rep)
        }
        Some("replay") => props::replay::replay(&bins, &args[2], &verif_dir()),
        Some("one") => {
            // xv one <scenario.json> [policy]  — run one scenario under the base policy and print the trace
            let txt = std::fs::read_to_string(&args[2]).expect("read scenario");
            let v: serde_json::Value = serde_json::from_str(&txt).expect("json");
            let s: Scenario = serde_json::from_value(if v.get("scenario").is_some() { v["scenario"].clone() } else { v.clone() }).expect("scenario");
            let spec: RunSpec = if v.get("spec").is_some() { serde_json::from_value(v["spec"].clone()).expect("spec") } else { RunSpec::base(Policy::P0) };
            let w = Worker::new(162, &bins);
            match w.run(&s, &spec) {
                Ok(r) => {
                    for l in r.trace_lines() {
                        println!("{}", l);
                    }
                    println!("outcome={:?} decisions={} steps={} stops={} peak_fds={}", r.outcome, r.decisions.len(), r.steps, r.stops, r.peak_fds);
                    for l in render(&w.snapshot(&s)) {
                        println!("  {}", l);
                    }
                    println!("stderr: {}", String::from_utf8_lossy(&r.stderr));
                    0
                }
                Err(e) => {
                    eprintln!("engine error: {}", e);
                    2
                }
            }
        }
        _ => {
            eprintln!("usage: xv selftest | check <ID> quick|thorough | replay <file> | one <scenario.json>");
            2
        }
    };
    cleanup_scratch();
    std::process::exit(code);
}
