//! scenarios (initial tree + invocation), sandbox construction, snapshots

use crate::sup::{self, Launch, RunResult, RunSpec};
use crate::util::{esc, gen_byte, join, unesc};
use serde::{Deserialize, Serialize};
use std::collections::BTreeMap;
use std::ffi::CString;
use std::os::unix::ffi::OsStrExt;
use std::os::unix::fs::FileExt;

#[derive(Clone, Debug, Serialize, Deserialize, PartialEq)]
pub enum Content {
    /// literal bytes (escaped)
    Bytes(String),
    /// `len` deterministic non-zero bytes
    Gen { len: u64, seed: u64 },
    /// `units` of `unit` bytes each, true = data, false = hole, followed by `tail` data bytes
    Layout { unit: u64, units: Vec<bool>, tail: u64, seed: u64 },
    /// a file of `len` bytes that is one hole except for the data islands `at` = [(offset, length)] (sorted,
    /// disjoint, inside the file): for offsets beyond 2 and 4 GiB without writing gigabytes
    Islands { len: u64, at: Vec<(u64, u64)>, seed: u64 },
}

impl Content {
    pub fn lit(s: &str) -> Content {
        Content::Bytes(s.to_string())
    }
    pub fn len(&self) -> u64 {
        match self {
            Content::Bytes(s) => unesc(s).len() as u64,
            Content::Gen { len, .. } => *len,
            Content::Layout { unit, units, tail, .. } => unit * units.len() as u64 + tail,
            Content::Islands { len, .. } => *len,
        }
    }
    /// data segments [start,end)
    pub fn segments(&self) -> Vec<(u64, u64)> {
        match self {
            Content::Layout { unit, units, tail, .. } => {
                let mut v: Vec<(u64, u64)> = vec![];
                for (i, &d) in units.iter().enumerate() {
                    if d {
                        let s = i as u64 * unit;
                        match v.last_mut() {
                            Some(l) if l.1 == s => l.1 = s + unit,
                            _ => v.push((s, s + unit)),
                        }
                    }
                }
                if *tail > 0 {
                    let s = units.len() as u64 * unit;
                    match v.last_mut() {
                        Some(l) if l.1 == s => l.1 = s + tail,
                        _ => v.push((s, s + tail)),
                    }
                }
                v
            }
            Content::Islands { at, .. } => at.iter().map(|&(o, n)| (o, o + n)).collect(),
            _ => {
                if self.len() > 0 {
                    vec![(0, self.len())]
                } else {
                    vec![]
                }
            }
        }
    }
    pub fn chunk(&self, off: u64, n: usize) -> Vec<u8> {
        match self {
            Content::Bytes(s) => {
                let b = unesc(s);
                let a = (off as usize).min(b.len());
                let e = (a + n).min(b.len());
                b[a..e].to_vec()
            }
            Content::Gen { len, seed } => {
                let e = (off + n as u64).min(*len);
                (off..e).map(|o| gen_byte(*seed, o)).collect()
            }
            Content::Layout { seed, .. } | Content::Islands { seed, .. } => {
                let total = self.len();
                let e = (off + n as u64).min(total);
                let segs = self.segments();
                let mut out = vec![0u8; (e.saturating_sub(off)) as usize];
                for (s, t) in segs {
                    let a = s.max(off);
                    let b = t.min(e);
                    let mut o = a;
                    while o < b {
                        out[(o - off) as usize] = gen_byte(*seed, o);
                        o += 1;
                    }
                }
                out
            }
        }
    }
    pub fn bytes(&self) -> Vec<u8> {
        self.chunk(0, self.len() as usize)
    }
    /// compare a file on disk with this content; Err(description of the first difference)
    pub fn check_file(&self, path: &std::path::Path) -> Result<(), String> {
        let f = std::fs::File::open(path).map_err(|e| format!("open {:?}: {}", path, e))?;
        let flen = f.metadata().map_err(|e| e.to_string())?.len();
        if flen != self.len() {
            return Err(format!("length {} expected {}", flen, self.len()));
        }
        let mut off = 0u64;
        let mut buf = vec![0u8; 1 << 20];
        let segs = self.segments();
        use std::os::unix::io::AsRawFd;
        while off < flen {
            // where both the file on disk and the expected content have a hole, there is nothing to compare
            let next_exp = segs.iter().find(|&&(_, t)| t > off).map(|&(s, _)| s.max(off)).unwrap_or(flen);
            if next_exp > off + (1 << 20) {
                let d = unsafe { libc::lseek(f.as_raw_fd(), off as i64, libc::SEEK_DATA) };
                let next_disk = if d < 0 { flen } else { d as u64 };
                let skip = next_exp.min(next_disk) & !4095;
                if skip > off {
                    off = skip;
                    continue;
                }
            }
            let n = f.read_at(&mut buf, off).map_err(|e| e.to_string())?;
            if n == 0 {
                return Err(format!("short read at {}", off));
            }
            let exp = self.chunk(off, n);
            if exp[..] != buf[..n] {
                let i = (0..n).find(|&i| exp[i] != buf[i]).unwrap();
                return Err(format!("byte {} is {:#04x} expected {:#04x}", off + i as u64, buf[i], exp[i]));
            }
            off += n as u64;
        }
        Ok(())
    }
}

#[derive(Clone, Debug, Serialize, Deserialize, PartialEq)]
pub enum Kind {
    File(Content),
    Dir,
    Symlink(String),
    Fifo,
    Socket,
    Chr(u32, u32),
    Blk(u32, u32),
    Hardlink(String),
}

#[derive(Clone, Debug, Serialize, Deserialize, PartialEq)]
pub struct Entry {
    /// path relative to the sandbox root (escaped bytes)
    pub path: String,
    pub kind: Kind,
    pub mode: Option<u32>,
    pub mtime: Option<(i64, u32)>,
    pub xattrs: Vec<(String, String)>,
    pub owner: Option<(u32, u32)>,
}

impl Entry {
    pub fn new(path: &str, kind: Kind) -> Entry {
        Entry { path: path.to_string(), kind, mode: None, mtime: None, xattrs: vec![], owner: None }
    }
    pub fn file(path: &str, content: &str) -> Entry {
        Entry::new(path, Kind::File(Content::lit(content)))
    }
    pub fn gen(path: &str, len: u64, seed: u64) -> Entry {
        Entry::new(path, Kind::File(Content::Gen { len, seed }))
    }
    pub fn dir(path: &str) -> Entry {
        Entry::new(path, Kind::Dir)
    }
    pub fn link(path: &str, target: &str) -> Entry {
        Entry::new(path, Kind::Symlink(target.to_string()))
    }
    pub fn mode(mut self, m: u32) -> Entry {
        self.mode = Some(m);
        self
    }
    pub fn mtime(mut self, s: i64, ns: u32) -> Entry {
        self.mtime = Some((s, ns));
        self
    }
    pub fn xattr(mut self, k: &str, v: &str) -> Entry {
        self.xattrs.push((k.to_string(), v.to_string()));
        self
    }
    pub fn owner(mut self, u: u32, g: u32) -> Entry {
        self.owner = Some((u, g));
        self
    }
    pub fn eff_mode(&self) -> u32 {
        self.mode.unwrap_or(match self.kind {
            Kind::Dir => 0o755,
            _ => 0o644,
        })
    }
    pub fn content(&self) -> Option<&Content> {
        match &self.kind {
            Kind::File(c) => Some(c),
            _ => None,
        }
    }
}

pub const DEFAULT_MTIME: (i64, u32) = (1_400_000_000, 123_456_789);

#[derive(Clone, Copy, Debug, Serialize, Deserialize, PartialEq)]
pub enum Prog {
    Xcp,
    XcpNoLinux,
    ApiProbe,
    Toy,
    /// xcp built with opt-level 1 (atomics inlined into xcp's own functions) and run with a decision point before
    /// every atomic read-modify-write instruction of its own code
    XcpAtomic,
}

#[derive(Clone, Copy, Debug, Serialize, Deserialize, PartialEq)]
pub enum Fs {
    Ext4,
    Tmpfs,
}

#[derive(Clone, Debug, Serialize, Deserialize, PartialEq)]
pub struct Scenario {
    pub name: String,
    pub tree: Vec<Entry>,
    pub prog: Prog,
    /// argv[1..], escaped; "{R}" is replaced by the absolute sandbox root
    pub args: Vec<String>,
    /// working directory relative to the sandbox root
    pub cwd: String,
    pub umask: u32,
    pub nofile: Option<u64>,
    pub fs: Fs,
    /// run the program as this (uid, gid) instead of root; entries without an explicit owner belong to it
    #[serde(default)]
    pub run_as: Option<(u32, u32)>,
}

impl Scenario {
    pub fn new(name: &str, tree: Vec<Entry>, args: &[&str]) -> Scenario {
        Scenario { name: name.to_string(), tree, prog: Prog::Xcp, args: args.iter().map(|s| s.to_string()).collect(), cwd: String::new(), umask: 0o022, nofile: None, fs: Fs::Ext4, run_as: None }
    }
    pub fn entry(&self, path: &str) -> Option<&Entry> {
        self.tree.iter().find(|e| e.path == path)
    }
    pub fn cmdline(&self) -> String {
        format!("{:?} {}", self.prog, self.args.join(" "))
    }
}

// ---------------------------------------------------------------------------------------------
// binaries

#[derive(Clone, Debug, Default)]
pub struct Bins {
    pub xcp: String,
    pub xcp_nolinux: String,
    pub apiprobe: String,
    pub toy: String,
    pub xcp_o1: String,
    pub o1_breakpoints: Vec<u64>,
}

impl Bins {
    pub fn from_env() -> Bins {
        let g = |k: &str| std::env::var(k).unwrap_or_default();
        let bps: Vec<u64> = std::fs::read_to_string(g("XV_XCP_O1_BPS")).unwrap_or_default().lines().filter_map(|l| u64::from_str_radix(l.trim(), 16).ok()).collect();
        Bins { xcp: g("XV_XCP"), xcp_nolinux: g("XV_XCP_NOLINUX"), apiprobe: g("XV_APIPROBE"), toy: g("XV_TOY"), xcp_o1: g("XV_XCP_O1"), o1_breakpoints: bps }
    }
    pub fn path(&self, p: Prog) -> &str {
        match p {
            Prog::Xcp => &self.xcp,
            Prog::XcpNoLinux => &self.xcp_nolinux,
            Prog::ApiProbe => &self.apiprobe,
            Prog::Toy => &self.toy,
            Prog::XcpAtomic => &self.xcp_o1,
        }
    }
}

// ---------------------------------------------------------------------------------------------
// worker: owns one scratch directory per file system kind

pub struct Worker {
    pub id: usize,
    pub base_ext4: String,
    pub base_tmpfs: String,
    pub bins: Bins,
}

fn cstr(p: &std::path::Path) -> CString {
    CString::new(p.as_os_str().as_bytes()).unwrap()
}

/// One scratch directory per run, named after the process that first asks for it (main does, before any worker is
/// forked): the forked workers inherit the name, so everything lives below one directory that main removes.
static SCRATCH_OWNER: std::sync::OnceLock<u32> = std::sync::OnceLock::new();
fn scratch_owner() -> u32 {
    *SCRATCH_OWNER.get_or_init(std::process::id)
}
pub fn scratch_base() -> String {
    let t = std::env::var("XV_SCRATCH").or_else(|_| std::env::var("TMPDIR")).unwrap_or_else(|_| "/tmp".to_string());
    format!("{}/xv.{}", t.trim_end_matches('/'), scratch_owner())
}
pub fn scratch_base_tmpfs() -> String {
    format!("/dev/shm/xv.{}", scratch_owner())
}

pub fn cleanup_scratch() {
    if scratch_owner() != std::process::id() {
        return; // a forked worker: the directory is main's
    }
    let _ = std::fs::remove_dir_all(scratch_base());
    let _ = std::fs::remove_dir_all(scratch_base_tmpfs());
}

/// an execution the wall-clock watchdog had to kill is re-run from a fresh sandbox this many times; only a block
/// that repeats every time is believed (a machine stall does not repeat, a call that never returns does)
pub const WATCHDOG_RETRIES: usize = 2;
pub static WATCHDOG_RERUNS: std::sync::atomic::AtomicUsize = std::sync::atomic::AtomicUsize::new(0);

impl Worker {
    pub fn new(id: usize, bins: &Bins) -> Worker {
        let w = Worker { id, base_ext4: format!("{}/w{}", scratch_base(), id), base_tmpfs: format!("{}/w{}", scratch_base_tmpfs(), id), bins: bins.clone() };
        std::fs::create_dir_all(format!("{}/out", w.base_ext4)).expect("create scratch dir");
        let _ = std::fs::create_dir_all(format!("{}/out", w.base_tmpfs));
        w
    }
    pub fn root(&self, fs: Fs) -> String {
        match fs {
            Fs::Ext4 => format!("{}/sb", self.base_ext4),
            Fs::Tmpfs => format!("{}/sb", self.base_tmpfs),
        }
    }
    /// (re)create the sandbox for this scenario; returns its root
    pub fn prepare(&self, s: &Scenario) -> Result<String, String> {
        let root = self.root(s.fs);
        remove_tree(&root);
        build_tree(&root, &s.tree)?;
        if let Some((u, g)) = s.run_as {
            // the sandbox belongs to the unprivileged user, except entries with an explicit owner
            let mut paths: Vec<std::path::PathBuf> = vec![std::path::PathBuf::from(&root)];
            for e in &s.tree {
                if e.owner.is_none() {
                    paths.push(join(&root, &unesc(&e.path)));
                }
            }
            for p in paths {
                let c = cstr(&p);
                unsafe { libc::lchown(c.as_ptr(), u, g) };
            }
            // lchown clears set-id bits and touches ctime only; restore modes that carry set-id bits
            for e in &s.tree {
                if e.owner.is_none() && !matches!(e.kind, Kind::Symlink(_)) && e.eff_mode() & 0o7000 != 0 {
                    let c = cstr(&join(&root, &unesc(&e.path)));
                    unsafe { libc::chmod(c.as_ptr(), e.eff_mode() as libc::mode_t) };
                }
            }
        }
        Ok(root)
    }
    pub fn launch_for(&self, s: &Scenario) -> Launch {
        let root = self.root(s.fs);
        let cwd = if s.cwd.is_empty() { root.clone() } else { format!("{}/{}", root, s.cwd) };
        Launch {
            exe: self.bins.path(s.prog).to_string(),
            args: s.args.iter().map(|a| unesc(&a.replace("{R}", &root))).collect(),
            cwd,
            root,
            umask: s.umask,
            nofile: s.nofile,
            stdout_path: format!("{}/out/stdout", self.base_ext4),
            stderr_path: format!("{}/out/stderr", self.base_ext4),
            slot: self.id,
            run_as: s.run_as,
            breakpoints: if s.prog == Prog::XcpAtomic { self.bins.o1_breakpoints.clone() } else { vec![] },
        }
    }
    /// build the sandbox and execute under the supervisor
    pub fn run(&self, s: &Scenario, spec: &RunSpec) -> Result<RunResult, String> {
        let mut tries = 0;
        loop {
            self.prepare(s)?;
            let r = self.exec(s, spec)?;
            if r.watchdog && tries < WATCHDOG_RETRIES {
                tries += 1;
                WATCHDOG_RERUNS.fetch_add(1, std::sync::atomic::Ordering::Relaxed);
                continue;
            }
            return Ok(r);
        }
    }
    /// execute in the sandbox as it is now
    pub fn exec(&self, s: &Scenario, spec: &RunSpec) -> Result<RunResult, String> {
        let l = self.launch_for(s);
        if l.exe.is_empty() {
            return Err(format!("no binary configured for {:?}", s.prog));
        }
        sup::execute(&l, spec)
    }
    /// execute free-running (no tracer): for the transparency cross-check
    pub fn exec_free(&self, s: &Scenario) -> Result<(i32, Vec<u8>), String> {
        let l = self.launch_for(s);
        use std::os::unix::process::CommandExt;
        let mut c = std::process::Command::new(&l.exe);
        for a in &l.args {
            c.arg(crate::util::os(a));
        }
        c.current_dir(&l.cwd).env_clear().env("PATH", "/usr/bin:/bin").env("HOME", "/nonexistent").env("LANG", "C").env("TERM", "dumb");
        let um = l.umask;
        unsafe {
            c.pre_exec(move || {
                libc::umask(um as libc::mode_t);
                Ok(())
            });
        }
        let out = c.stdin(std::process::Stdio::null()).output().map_err(|e| format!("spawn {}: {}", l.exe, e))?;
        Ok((out.status.code().unwrap_or(-1), out.stdout))
    }
    pub fn snapshot(&self, s: &Scenario) -> Snap {
        snapshot(&self.root(s.fs), true)
    }
}

pub fn remove_tree(root: &str) {
    let p = std::path::Path::new(root);
    if p.symlink_metadata().is_ok() {
        // directories may have been made unreadable by a scenario
        if std::fs::remove_dir_all(p).is_err() {
            let _ = std::process::Command::new("chmod").args(["-R", "u+rwx", root]).status();
            let _ = std::fs::remove_dir_all(p);
        }
    }
}

pub fn build_tree(root: &str, tree: &[Entry]) -> Result<(), String> {
    std::fs::create_dir_all(root).map_err(|e| format!("mkdir {}: {}", root, e))?;
    let mut dirs_late: Vec<(std::path::PathBuf, &Entry)> = vec![];
    for e in tree {
        let p = join(root, &unesc(&e.path));
        let c = cstr(&p);
        match &e.kind {
            Kind::Dir => {
                std::fs::create_dir_all(&p).map_err(|x| format!("mkdir {:?}: {}", p, x))?;
                dirs_late.push((p.clone(), e));
                continue;
            }
            Kind::File(content) => write_content(&p, content)?,
            Kind::Symlink(t) => {
                std::os::unix::fs::symlink(crate::util::os(&unesc(&t.replace("{R}", root))), &p).map_err(|x| format!("symlink {:?}: {}", p, x))?;
            }
            Kind::Hardlink(t) => {
                std::fs::hard_link(join(root, &unesc(t)), &p).map_err(|x| format!("link {:?}: {}", p, x))?;
                continue;
            }
            Kind::Fifo | Kind::Socket | Kind::Chr(..) | Kind::Blk(..) => {
                let (ty, dev) = match e.kind {
                    Kind::Fifo => (libc::S_IFIFO, 0),
                    Kind::Socket => (libc::S_IFSOCK, 0),
                    Kind::Chr(a, b) => (libc::S_IFCHR, libc::makedev(a, b)),
                    Kind::Blk(a, b) => (libc::S_IFBLK, libc::makedev(a, b)),
                    _ => unreachable!(),
                };
                let r = unsafe { libc::mknod(c.as_ptr(), ty | 0o600, dev) };
                if r != 0 {
                    return Err(format!("mknod {:?}: {}", p, std::io::Error::last_os_error()));
                }
            }
        }
        apply_meta(&p, e)?;
    }
    // directory metadata last (creating children changes their times)
    for (p, e) in dirs_late.into_iter().rev() {
        apply_meta(&p, e)?;
    }
    Ok(())
}

fn apply_meta(p: &std::path::Path, e: &Entry) -> Result<(), String> {
    let c = cstr(p);
    let is_link = matches!(e.kind, Kind::Symlink(_));
    for (k, v) in &e.xattrs {
        let kc = CString::new(k.as_str()).unwrap();
        let vb = unesc(v);
        let r = unsafe { libc::lsetxattr(c.as_ptr(), kc.as_ptr(), vb.as_ptr() as *const libc::c_void, vb.len(), 0) };
        if r != 0 {
            return Err(format!("setxattr {:?} {}: {}", p, k, std::io::Error::last_os_error()));
        }
    }
    if let Some((u, g)) = e.owner {
        let r = unsafe { libc::lchown(c.as_ptr(), u, g) };
        if r != 0 {
            return Err(format!("chown {:?}: {}", p, std::io::Error::last_os_error()));
        }
    }
    if !is_link {
        let r = unsafe { libc::chmod(c.as_ptr(), e.eff_mode() as libc::mode_t) };
        if r != 0 {
            return Err(format!("chmod {:?}: {}", p, std::io::Error::last_os_error()));
        }
    }
    let (s, ns) = e.mtime.unwrap_or(DEFAULT_MTIME);
    let ts = [libc::timespec { tv_sec: s, tv_nsec: ns as i64 }, libc::timespec { tv_sec: s, tv_nsec: ns as i64 }];
    let r = unsafe { libc::utimensat(libc::AT_FDCWD, c.as_ptr(), ts.as_ptr(), libc::AT_SYMLINK_NOFOLLOW) };
    if r != 0 {
        return Err(format!("utimensat {:?}: {}", p, std::io::Error::last_os_error()));
    }
    Ok(())
}

pub fn write_content(p: &std::path::Path, c: &Content) -> Result<(), String> {
    let f = std::fs::OpenOptions::new().write(true).create(true).truncate(true).open(p).map_err(|e| format!("create {:?}: {}", p, e))?;
    match c {
        Content::Layout { .. } | Content::Islands { .. } => {
            for (s, t) in c.segments() {
                let mut o = s;
                while o < t {
                    let n = ((t - o) as usize).min(1 << 20);
                    f.write_all_at(&c.chunk(o, n), o).map_err(|e| e.to_string())?;
                    o += n as u64;
                }
            }
            f.set_len(c.len()).map_err(|e| e.to_string())?;
        }
        _ => {
            let total = c.len();
            let mut o = 0u64;
            while o < total {
                let n = ((total - o) as usize).min(1 << 20);
                f.write_all_at(&c.chunk(o, n), o).map_err(|e| e.to_string())?;
                o += n as u64;
            }
        }
    }
    Ok(())
}

// ---------------------------------------------------------------------------------------------
// snapshots

#[derive(Clone, Debug, PartialEq)]
pub struct Node {
    /// f d l p s c b ?
    pub kind: char,
    pub mode: u32,
    pub uid: u32,
    pub gid: u32,
    pub size: u64,
    pub blocks: u64,
    pub mtime: (i64, i64),
    pub ctime: (i64, i64),
    pub nlink: u64,
    pub rdev: u64,
    pub ino: u64,
    pub link: Option<Vec<u8>>,
    pub xattrs: BTreeMap<String, Vec<u8>>,
    pub hash: u64,
    /// content when small (<= 64 KiB)
    pub data: Option<Vec<u8>>,
}

pub type Snap = BTreeMap<String, Node>;

impl Node {
    /// first field in which the two differ (everything but atime)
    pub fn diff_all(&self, o: &Node) -> Option<String> {
        macro_rules! f {
            ($n:ident) => {
                if self.$n != o.$n {
                    return Some(format!("{} {:?} -> {:?}", stringify!($n), self.$n, o.$n));
                }
            };
        }
        f!(kind);
        f!(mode);
        f!(uid);
        f!(gid);
        f!(size);
        f!(hash);
        f!(link);
        f!(mtime);
        f!(ctime);
        f!(nlink);
        f!(rdev);
        f!(ino);
        f!(xattrs);
        None
    }
    /// content / kind / link text / metadata except ctime, nlink and inode
    pub fn diff_content_meta(&self, o: &Node) -> Option<String> {
        macro_rules! f {
            ($n:ident) => {
                if self.$n != o.$n {
                    return Some(format!("{} {:?} -> {:?}", stringify!($n), self.$n, o.$n));
                }
            };
        }
        f!(kind);
        f!(mode);
        f!(uid);
        f!(gid);
        f!(size);
        f!(hash);
        f!(link);
        f!(mtime);
        f!(rdev);
        f!(xattrs);
        None
    }
}

pub fn lstat_node(p: &std::path::Path, hash: bool) -> Option<Node> {
    let c = cstr(p);
    let mut st: libc::stat = unsafe { std::mem::zeroed() };
    if unsafe { libc::lstat(c.as_ptr(), &mut st) } != 0 {
        return None;
    }
    let kind = match st.st_mode & libc::S_IFMT {
        libc::S_IFREG => 'f',
        libc::S_IFDIR => 'd',
        libc::S_IFLNK => 'l',
        libc::S_IFIFO => 'p',
        libc::S_IFSOCK => 's',
        libc::S_IFCHR => 'c',
        libc::S_IFBLK => 'b',
        _ => '?',
    };
    let link = if kind == 'l' { std::fs::read_link(p).ok().map(|t| t.as_os_str().as_bytes().to_vec()) } else { None };
    let mut xattrs = BTreeMap::new();
    let mut buf = vec![0u8; 65536];
    let n = unsafe { libc::llistxattr(c.as_ptr(), buf.as_mut_ptr() as *mut libc::c_char, buf.len()) };
    if n > 0 {
        for name in buf[..n as usize].split(|&b| b == 0).filter(|s| !s.is_empty()) {
            let kc = CString::new(name).unwrap();
            let mut vb = vec![0u8; 65536];
            let m = unsafe { libc::lgetxattr(c.as_ptr(), kc.as_ptr(), vb.as_mut_ptr() as *mut libc::c_void, vb.len()) };
            if m >= 0 {
                vb.truncate(m as usize);
                xattrs.insert(String::from_utf8_lossy(name).to_string(), vb);
            }
        }
    }
    let (mut h, mut data) = (0u64, None);
    if kind == 'f' && hash {
        if st.st_size as u64 <= 65536 {
            if let Ok(b) = std::fs::read(p) {
                h = crate::util::hash_bytes(&b);
                data = Some(b);
            }
        } else {
            h = sparse_hash(p);
        }
    }
    Some(Node {
        kind,
        mode: (st.st_mode & 0o7777) as u32,
        uid: st.st_uid,
        gid: st.st_gid,
        size: st.st_size as u64,
        blocks: st.st_blocks as u64,
        mtime: (st.st_mtime, st.st_mtime_nsec),
        ctime: (st.st_ctime, st.st_ctime_nsec),
        nlink: st.st_nlink as u64,
        rdev: st.st_rdev as u64,
        ino: st.st_ino as u64,
        link,
        xattrs,
        hash: h,
        data,
    })
}

/// Hash of a large file that does not depend on whether zeros are stored or are a hole, and that does not
/// read the holes: maximal runs of zero bytes enter as their length, other bytes as themselves.
pub fn sparse_hash(p: &std::path::Path) -> u64 {
    let f = match std::fs::File::open(p) {
        Ok(f) => f,
        Err(_) => return 0,
    };
    let flen = f.metadata().map(|m| m.len()).unwrap_or(0);
    let mut hh = crate::util::Fnv::new();
    let mut zeros = 0u64;
    let mut pos = 0u64;
    let mut b = vec![0u8; 1 << 20];
    let flush = |hh: &mut crate::util::Fnv, zeros: &mut u64| {
        if *zeros > 0 {
            hh.write_raw(&[0]);
            hh.write_raw(&zeros.to_le_bytes());
            *zeros = 0;
        }
    };
    let mut segs = seek_map(p);
    if segs.is_empty() && flen > 0 {
        // SEEK_DATA unsupported or the file is one hole
        let c = cstr(p);
        let fd = unsafe { libc::open(c.as_ptr(), libc::O_RDONLY) };
        let d = unsafe { libc::lseek(fd, 0, libc::SEEK_DATA) };
        let unsupported = d < 0 && std::io::Error::last_os_error().raw_os_error() != Some(libc::ENXIO);
        unsafe { libc::close(fd) };
        if unsupported {
            segs.push((0, flen));
        }
    }
    for (s, t) in segs {
        zeros += s.saturating_sub(pos);
        let mut off = s;
        while off < t {
            let want = ((t - off) as usize).min(b.len());
            match f.read_at(&mut b[..want], off) {
                Ok(0) | Err(_) => return hh.finish() ^ 0xdead,
                Ok(k) => {
                    let mut i = 0;
                    while i < k {
                        if b[i] == 0 {
                            let j = b[i..k].iter().position(|&c| c != 0).map(|x| i + x).unwrap_or(k);
                            zeros += (j - i) as u64;
                            i = j;
                        } else {
                            flush(&mut hh, &mut zeros);
                            let j = b[i..k].iter().position(|&c| c == 0).map(|x| i + x).unwrap_or(k);
                            hh.write_raw(&b[i..j]);
                            i = j;
                        }
                    }
                    off += k as u64;
                }
            }
        }
        pos = t;
    }
    zeros += flen.saturating_sub(pos);
    flush(&mut hh, &mut zeros);
    hh.write_raw(&flen.to_le_bytes());
    hh.finish()
}

/// every entry below root (root itself is ""), keyed by escaped relative path
pub fn snapshot(root: &str, hash: bool) -> Snap {
    let mut out = Snap::new();
    fn walk(root: &str, rel: &[u8], hash: bool, out: &mut Snap) {
        let p = join(root, rel);
        let node = match lstat_node(&p, hash) {
            Some(n) => n,
            None => return,
        };
        let is_dir = node.kind == 'd';
        out.insert(esc(rel), node);
        if is_dir {
            if let Ok(rd) = std::fs::read_dir(&p) {
                let mut names: Vec<Vec<u8>> = rd.filter_map(|e| e.ok()).map(|e| e.file_name().as_bytes().to_vec()).collect();
                names.sort();
                for n in names {
                    let mut r = rel.to_vec();
                    if !r.is_empty() {
                        r.push(b'/');
                    }
                    r.extend_from_slice(&n);
                    walk(root, &r, hash, out);
                }
            }
        }
    }
    walk(root, b"", hash, &mut out);
    out
}

/// data extents of a file as seen through SEEK_DATA / SEEK_HOLE
pub fn seek_map(p: &std::path::Path) -> Vec<(u64, u64)> {
    let c = cstr(p);
    let fd = unsafe { libc::open(c.as_ptr(), libc::O_RDONLY) };
    let mut v = vec![];
    if fd < 0 {
        return v;
    }
    let mut pos: i64 = 0;
    loop {
        let d = unsafe { libc::lseek(fd, pos, libc::SEEK_DATA) };
        if d < 0 {
            break;
        }
        let h = unsafe { libc::lseek(fd, d, libc::SEEK_HOLE) };
        if h < 0 {
            break;
        }
        v.push((d as u64, h as u64));
        pos = h;
    }
    unsafe { libc::close(fd) };
    v
}

/// short human-readable rendering of a snapshot (for replay files and messages)
pub fn render(s: &Snap) -> Vec<String> {
    s.iter()
        .map(|(p, n)| {
            let mut l = format!("{} {} {:04o} {}:{} size={}", if p.is_empty() { "." } else { p }, n.kind, n.mode, n.uid, n.gid, n.size);
            if let Some(t) = &n.link {
                l.push_str(&format!(" -> {}", esc(t)));
            }
            if n.kind == 'f' {
                match &n.data {
                    Some(d) if d.len() <= 48 => l.push_str(&format!(" data={:?}", esc(d))),
                    _ => l.push_str(&format!(" hash={:016x}", n.hash)),
                }
                l.push_str(&format!(" mtime={}.{:09}", n.mtime.0, n.mtime.1));
            }
            if n.kind == 'c' || n.kind == 'b' {
                l.push_str(&format!(" rdev={}:{}", libc::major(n.rdev), libc::minor(n.rdev)));
            }
            if !n.xattrs.is_empty() {
                l.push_str(&format!(" xattrs={:?}", n.xattrs.keys().collect::<Vec<_>>()));
            }
            l
        })
        .collect()
}
