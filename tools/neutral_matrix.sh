#!/bin/bash
# applies every behaviour-preserving change under /verif/neutral to /repo in turn, runs every quick check,
# undoes it. Expect rc=0 and no VIOLATION anywhere.
cd /verif/neutral || exit 2
bad=0
for d in */; do
  d=${d%/}
  git -C /repo diff --quiet || { echo "/repo working tree not clean"; exit 2; }
  git -C /repo apply /verif/neutral/$d/patch.diff || { echo "$d: patch does not apply"; bad=1; continue; }
  out=$(/verif/tools/run_all.sh quick 2>&1)
  git -C /repo checkout -- .
  n=$(echo "$out" | grep -c "^VIOLATION")
  r=$(echo "$out" | grep -E "^C[0-9]+ rc=" | grep -vc "rc=0")
  echo "$d -> violations=$n nonzero_exits=$r"
  [ "$n" = 0 ] && [ "$r" = 0 ] || { bad=1; echo "$out" | grep -E "^(VIOLATION|MACHINERY|C[0-9]+ rc=[12])" | head; }
done
exit $bad
