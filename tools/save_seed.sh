#!/bin/bash
# tools/save_seed.sh <seed-id> <property> <scratch-dir> "<needs>" "<ran>"   store a confirmed seeded change under /verif/seeded/<seed-id>/
id="$1"; prop="$2"; src="$3"; needs="$4"; ran="$5"
d=/verif/seeded/$id; mkdir -p "$d"
cp "$src/patch.diff" "$d/patch.diff"
for f in "$src"/demo* "$src"/*.py "$src"/*.rs; do [ -f "$f" ] && cp "$f" "$d/"; done 2>/dev/null
python3 - "$d" "$prop" "$needs" "$ran" <<'PY'
import json,sys
d,prop,needs,ran=sys.argv[1:5]
json.dump({"breaks_property":prop,"needs_to_manifest":needs,"what_i_ran":ran,"origin":"written by an independent sub-agent given only the property text and a scratch worktree of /repo (HEAD with the fix: commits and hooks)"},open(d+"/meta.json","w"),indent=1)
PY
ls "$d"
