#!/usr/bin/env python3
"""Regenerates /verif/MANIFEST.json from the table below (kept in one place so it stays valid)."""
import json, os
V = os.path.dirname(os.path.dirname(os.path.abspath(__file__)))

# id -> (category, technique, text, note)   ; only properties whose check is built and passing are listed
CLAIMED = {
 'C01': ('model_checking', "bounded-exhaustive enumeration of scenarios (explicit-state search over a small input alphabet), each executed by the real binary under the supervisor's deterministic schedules and compared with a reference model",
         'Sizes {0,1,B-1,B,B+1,2B-1,2B,2B+1,3B+1} x block sizes {1,2,3,7,4096,usize::MAX} x prior destination {absent, shorter, longer, same length} x drivers x workers x reflink x progress, every data/hole string up to a length bound in 4 KiB (thorough: 64 KiB) units, small trees, files of 4-5 GiB whose data islands straddle the 2 GiB and 4 GiB offsets, and (thorough) one file larger than a single kernel copy request: exit 0 => destination byte-identical, nothing of a previous destination survives.',
         'Pre-emption at visible system calls and hook markers (and before the atomic instructions of the program itself where the evidence says atomic grain); crossbeam-channel, blocking-threadpool, Arc internals and the kernel trusted; one kernel, ext4 (+tmpfs); bounds as reported in the evidence file (DESIGN 3.1.7, 10).'),
 'C02': ('model_checking', "bounded-exhaustive enumeration of scenarios (explicit-state search over a small input alphabet), each executed by the real binary under the supervisor's deterministic schedules and compared with a reference model",
         "Source selections (incl. a directory of unusual names over a 24-level chain) x destination states x spellings x {-,-T,--target-directory,-L} x drivers plus glob-selected sources and a schedule search (d <= 1, thorough 2; pre-emptions and timers expiring first; base policies P0/P1/P2) on a small tree, against a reference model of cp's mapping rule: exit 0 => whole sandbox equals the expected tree; entries that are no mapped target are identical before/after whatever the exit status.",
         'Pre-emption at visible system calls and hook markers (and before the atomic instructions of the program itself where the evidence says atomic grain); crossbeam-channel, blocking-threadpool, Arc internals and the kernel trusted; one kernel, ext4 (+tmpfs); bounds as reported in the evidence file (DESIGN 3.1.7, 10). Undefined inputs (two sources onto one path, ./.. as source, destination inside a source) are outside the alphabet.'),
 'C03': ('fault_enumeration', 'exhaustive fault / short-count / kill-point enumeration at every system call of recorded executions of the real binary (xsup fault injector)',
         "Fifteen alias relations between a source and its mapped destination (path spellings, symbolic/hard links, symlinked directories, recursive forms, special files) x drivers x backup modes; SIGKILL at every decision point of an overwrite-with-backup copy; every single injected failure of C04's sites: all sources and bystanders identical before/after incl. ctime and inode.",
         'Pre-emption at visible system calls and hook markers (and before the atomic instructions of the program itself where the evidence says atomic grain); crossbeam-channel, blocking-threadpool, Arc internals and the kernel trusted; one kernel, ext4 (+tmpfs); bounds as reported in the evidence file (DESIGN 3.1.7, 10). Kill = process kill between system calls; power loss not modelled.'),
 'C04': ('fault_enumeration', 'exhaustive fault / short-count / kill-point enumeration at every system call of recorded executions of the real binary (xsup fault injector)',
         'One execution per (system call site, errno) for every visible call of the walker, dispatcher and workers of both drivers on a tree with multi-block, small, empty, one-byte and sparse files, empty and nested directories, a link and a FIFO, copied onto fresh / populated (backup, fsync) / cloned destinations, plus one scenario per option family (-L, --gitignore, --glob, -n, --ownership with --backup=auto, --no-progress, one worker); a failing step after 150 files while the main thread is starved (timed waits may expire first); thorough adds all ordered pairs of faults and faults x one scheduling deviation: exit != 0 or the destination equals the reference tree incl. mode/mtime and no fsync failed.',
         'Pre-emption at visible system calls and hook markers (and before the atomic instructions of the program itself where the evidence says atomic grain); crossbeam-channel, blocking-threadpool, Arc internals and the kernel trusted; one kernel, ext4 (+tmpfs); bounds as reported in the evidence file (DESIGN 3.1.7, 10). xattr and chown failures are tolerated by the property and not injected.'),
 'C05': ('fault_enumeration', 'exhaustive fault / short-count / kill-point enumeration at every system call of recorded executions of the real binary (xsup fault injector)',
         'Every legal short count at every data-moving call of tiny files (all sizes 1..10/16, block sizes 3/n/MAX), small-kernel runs, copy_file_range/FICLONE/FIEMAP answered as unsupported combined with every clamp and EINTR on the fallback, SEEK_DATA/SEEK_HOLE answered EINVAL, sparse layouts, the same against a build without the Linux backend, and the schedule search (d <= 1, thorough 2) on the fallback without copy_file_range: exit 0 => byte-exact destination.',
         'Pre-emption at visible system calls and hook markers (and before the atomic instructions of the program itself where the evidence says atomic grain); crossbeam-channel, blocking-threadpool, Arc internals and the kernel trusted; one kernel, ext4 (+tmpfs); bounds as reported in the evidence file (DESIGN 3.1.7, 10).'),
 'C06': ('model_checking', 'stateless model checking of the real binary: exhaustive deviation-bounded schedule search at system-call granularity under a ptrace supervisor with futex emulation (xsup)',
         'Every execution with <= d scheduling deviations from two base policies on scenario sets S1-S6 (both drivers, workers 1..64; base policies P0, P1 and the eager-parking P2; atomic grain on the smallest), and 600 files under RLIMIT_NOFILE=1024 under producer-first and round-robin policies: exit 0, equals the reference tree incl. mode and mtime, directory exists before anything is created inside it, no data write after metadata was applied.',
         'Pre-emption at visible system calls and hook markers (and before the atomic instructions of the program itself where the evidence says atomic grain); crossbeam-channel, blocking-threadpool, Arc internals and the kernel trusted; one kernel, ext4 (+tmpfs); bounds as reported in the evidence file (DESIGN 3.1.7, 10).'),
 'C07': ('model_checking', 'stateless model checking of the real binary: exhaustive deviation-bounded schedule search at system-call granularity under a ptrace supervisor with futex emulation (xsup)',
         'The supervisor owns all blocking, so deadlock (no runnable thread), spinning (step budget) and blocking on a FIFO are decided structurally on every execution of the schedule search, of termination-specific scenarios (empty tree, FIFOs only, dying workers with 300 operations pending, block size 0, special files at the destination path / behind links / as the ignore file / selected by a pattern), of every short count at every data-moving call, of every single injected failure, and of a library client (copy returns, channel closes).',
         'Pre-emption at visible system calls and hook markers (and before the atomic instructions of the program itself where the evidence says atomic grain); crossbeam-channel, blocking-threadpool, Arc internals and the kernel trusted; one kernel, ext4 (+tmpfs); bounds as reported in the evidence file (DESIGN 3.1.7, 10).'),
 'C08': ('model_checking', 'stateless model checking of the real binary: exhaustive deviation-bounded schedule search at system-call granularity under a ptrace supervisor with futex emulation (xsup)',
         '-n copies with several sources where each position in walk order collides with an existing {file, dir, FIFO, link, dangling link}, both drivers, all executions with <= d deviations, -n combined with every other option, the destination argument itself existing as each kind (incl. dangling links) for each kind of source, and every stat of a destination path failing: every pre-existing entry identical before/after (incl. inode), non-zero exit on any file/link/node collision.',
         'Pre-emption at visible system calls and hook markers (and before the atomic instructions of the program itself where the evidence says atomic grain); crossbeam-channel, blocking-threadpool, Arc internals and the kernel trusted; one kernel, ext4 (+tmpfs); bounds as reported in the evidence file (DESIGN 3.1.7, 10).'),
 'C09': ('model_checking', "bounded-exhaustive enumeration of scenarios (explicit-state search over a small input alphabet), each executed by the real binary under the supervisor's deterministic schedules and compared with a reference model",
         'All histories of <= 3 (thorough 4) copy steps over backup modes x name classes (space, prefix pair, look-alike, non-UTF-8) x pre-existing backup numbers (gaps, 2^32, u64::MAX) x drivers against a history model; SIGKILL at every decision point of an overwrite step; injected getdents64/statx/rename/open failures; schedule search on the pair classes.',
         'Pre-emption at visible system calls and hook markers (and before the atomic instructions of the program itself where the evidence says atomic grain); crossbeam-channel, blocking-threadpool, Arc internals and the kernel trusted; one kernel, ext4 (+tmpfs); bounds as reported in the evidence file (DESIGN 3.1.7, 10).'),
 'C10': ('model_checking', "bounded-exhaustive enumeration of scenarios (explicit-state search over a small input alphabet), each executed by the real binary under the supervisor's deterministic schedules and compared with a reference model",
         'All 4096 modes x drivers x ownership, mtimes to the nanosecond incl. pre-1970, xattr sets, uid/gid pairs, the full flag product, all pairs of 15 options, copies made by an unprivileged user, fresh/overwritten, one refused xattr/chown call at each such call of a three-file copy (tolerated for the file it hits only), a schedule search with --no-perms, plus the parblock schedule search on multi-block files: exit 0 => mode, mtime, xattrs, owner as requested.',
         'Pre-emption at visible system calls and hook markers (and before the atomic instructions of the program itself where the evidence says atomic grain); crossbeam-channel, blocking-threadpool, Arc internals and the kernel trusted; one kernel, ext4 (+tmpfs); bounds as reported in the evidence file (DESIGN 3.1.7, 10). Runs as root.'),
 'C11': ('model_checking', "bounded-exhaustive enumeration of scenarios (explicit-state search over a small input alphabet), each executed by the real binary under the supervisor's deterministic schedules and compared with a reference model",
         "Every data/hole string up to 5 (thorough 6) units of 1 MiB x 5 block sizes x drivers x workers x fresh/fully allocated destination, files of 31..100 extents, hole-size scaling, data islands straddling the 2 GiB and 4 GiB offsets, several sources where extent mapping is unsupported for the first only: allocation within rounding of the source's, destination data map inside the source's.",
         'Pre-emption at visible system calls and hook markers (and before the atomic instructions of the program itself where the evidence says atomic grain); crossbeam-channel, blocking-threadpool, Arc internals and the kernel trusted; one kernel, ext4 (+tmpfs); bounds as reported in the evidence file (DESIGN 3.1.7, 10).'),
 'C12': ('model_checking', 'stateless model checking of the real binary: exhaustive deviation-bounded schedule search at system-call granularity under a ptrace supervisor with futex emulation (xsup)',
         'A library client (apiprobe) explored like the CLI with all three updaters, schedule search with hook markers, injected failures, every short count, unsupported FIEMAP / copy_file_range / SEEK_DATA / SEEK_HOLE, emulated clone: sizes sum to total, copied never exceeds announced nor transferred at any delivery, channel closes, incomplete destination implies Error/Err.',
         'Pre-emption at visible system calls and hook markers (and before the atomic instructions of the program itself where the evidence says atomic grain); crossbeam-channel, blocking-threadpool, Arc internals and the kernel trusted; one kernel, ext4 (+tmpfs); bounds as reported in the evidence file (DESIGN 3.1.7, 10). With NoopUpdater the hand-over of an Error cannot be observed and is not demanded.'),
 'C13': ('model_checking', "bounded-exhaustive enumeration of scenarios (explicit-state search over a small input alphabet), each executed by the real binary under the supervisor's deterministic schedules and compared with a reference model",
         '19 link shapes (chains to 41, dangling, cycles, ancestors, inside linked directories) alone and in pairs, in a tree, as top-level source with and without -r and selected by --glob, every readlink/stat of a source path failing, both drivers: no link in the destination, contents resolved, dangling/cyclic => non-zero exit.',
         'Pre-emption at visible system calls and hook markers (and before the atomic instructions of the program itself where the evidence says atomic grain); crossbeam-channel, blocking-threadpool, Arc internals and the kernel trusted; one kernel, ext4 (+tmpfs); bounds as reported in the evidence file (DESIGN 3.1.7, 10).'),
 'C14': ('model_checking', "bounded-exhaustive enumeration of scenarios (explicit-state search over a small input alphabet), each executed by the real binary under the supervisor's deterministic schedules and compared with a reference model",
         'Node kind x device number x mode (incl. set-id and sticky bits) x umask x position x destination state x -n x drivers, block devices, mixed tree, an existing identical node, one to three workers handling four nodes under schedule search (umask is a decision point, policies P0/P1/P2), two nodes onto one path under -n: same type and st_rdev, mode & ~umask, replaced unless -n, never opened/read (trace monitor).',
         'Pre-emption at visible system calls and hook markers (and before the atomic instructions of the program itself where the evidence says atomic grain); crossbeam-channel, blocking-threadpool, Arc internals and the kernel trusted; one kernel, ext4 (+tmpfs); bounds as reported in the evidence file (DESIGN 3.1.7, 10). Runs as root (mknod).'),
 'C15': ('fault_enumeration', 'exhaustive fault / short-count / kill-point enumeration at every system call of recorded executions of the real binary (xsup fault injector)',
         'Every vector of answers to the FICLONE calls from {real fs, EOPNOTSUPP, EINVAL, EXDEV, EIO, EPERM, emulated success} x modes x trees (dense, empty, sparse, overwriting) x drivers, also verbose with a healthy and a failing log stream, judged on the system-call trace.',
         'Pre-emption at visible system calls and hook markers (and before the atomic instructions of the program itself where the evidence says atomic grain); crossbeam-channel, blocking-threadpool, Arc internals and the kernel trusted; one kernel, ext4 (+tmpfs); bounds as reported in the evidence file (DESIGN 3.1.7, 10). Clone success is emulated by the supervisor (no reflink-capable fs in the sandbox).'),
 'C16': ('model_checking', "bounded-exhaustive enumeration of scenarios (explicit-state search over a small input alphabet), each executed by the real binary under the supervisor's deterministic schedules and compared with a reference model",
         'Every rejection class (also spelled through --glob and through links to directories) x position of the offending argument x destination state x driver, several sources onto a non-directory also spelled with --target-directory, and source and destination being one file under 15 spellings x backup modes: non-zero exit and the sandbox identical before/after in every snapshot field.',
         'Pre-emption at visible system calls and hook markers (and before the atomic instructions of the program itself where the evidence says atomic grain); crossbeam-channel, blocking-threadpool, Arc internals and the kernel trusted; one kernel, ext4 (+tmpfs); bounds as reported in the evidence file (DESIGN 3.1.7, 10).'),
 'C17': ('model_checking', "bounded-exhaustive enumeration of scenarios (explicit-state search over a small input alphabet), each executed by the real binary under the supervisor's deterministic schedules and compared with a reference model",
         'Every .gitignore of 1-2 (thorough 3) lines over a 30-pattern alphabet on a 17-entry tree x drivers, three sources with every combination of four ignore files, and every open/read/stat of the ignore file or of a source entry failing; oracle is git check-ignore itself.',
         'Pre-emption at visible system calls and hook markers (and before the atomic instructions of the program itself where the evidence says atomic grain); crossbeam-channel, blocking-threadpool, Arc internals and the kernel trusted; one kernel, ext4 (+tmpfs); bounds as reported in the evidence file (DESIGN 3.1.7, 10). git 2.39 is the specification.'),
 'C18': ('model_checking', 'stateless model checking of the real binary: exhaustive deviation-bounded schedule search at system-call granularity under a ptrace supervisor with futex emulation (xsup)',
         'Schedule search with --fsync on all sets plus empty/one-byte/emulated-reflink files, -vv variants, the metadata flag product, the user-space fallback, and one refused fsync at each fsync call of a five-file copy: in the totally ordered trace each copied file has a successful fsync after its last write-class call.',
         'Pre-emption at visible system calls and hook markers (and before the atomic instructions of the program itself where the evidence says atomic grain); crossbeam-channel, blocking-threadpool, Arc internals and the kernel trusted; one kernel, ext4 (+tmpfs); bounds as reported in the evidence file (DESIGN 3.1.7, 10). fsync is recorded and answered 0 by the supervisor.'),
 'C19': ('model_checking', "bounded-exhaustive enumeration of scenarios (explicit-state search over a small input alphabet), each executed by the real binary under the supervisor's deterministic schedules and compared with a reference model",
         'merge_extents on every sorted extent list over 0..12 (thorough 0..15) and with shared-flag vectors, every list sorted by start incl. overlapping and nested extents; map_extents / merged / segment walk on every data/hole string in 4 KiB units, 31..100-extent files, preallocated files, just written and after fsync, ext4 and tmpfs, and the segment walk under the supervisor with one (or every) SEEK_DATA/SEEK_HOLE call refused: every byte outside the ranges is zero; merge covers inputs and adds only gaps.',
         'Pre-emption at visible system calls and hook markers (and before the atomic instructions of the program itself where the evidence says atomic grain); crossbeam-channel, blocking-threadpool, Arc internals and the kernel trusted; one kernel, ext4 (+tmpfs); bounds as reported in the evidence file (DESIGN 3.1.7, 10). FIEMAP page shapes the kernel does not produce are not enumerated.'),
 'C20': ('model_checking', 'stateless model checking of the real binary: exhaustive deviation-bounded schedule search at system-call granularity under a ptrace supervisor with futex emulation (xsup)',
         'Every static priority order over the thread roles x file counts x workers x drivers with descriptor accounting, plus --fsync runs, a 300-level deep tree, hundreds of source arguments under round-robin policies, a held worker, 150/300 files at atomic grain under eager priority orders, and runs with more files than RLIMIT_NOFILE=1024: peak descriptors <= 11+2*(128+w+1), no growth beyond saturation, exit 0.',
         'Pre-emption at visible system calls and hook markers (and before the atomic instructions of the program itself where the evidence says atomic grain); crossbeam-channel, blocking-threadpool, Arc internals and the kernel trusted; one kernel, ext4 (+tmpfs); bounds as reported in the evidence file (DESIGN 3.1.7, 10). Exhaustive over priority orders, not over all interleavings of a 300-file run.'),
}
ALL = ["C%02d" % i for i in range(1, 21)]
NOT_YET = {}

def main():
    checks = []
    for pid in ALL:
        if pid not in CLAIMED:
            continue
        cat, tech, text, note = CLAIMED[pid]
        checks.append({
            "property_id": pid,
            "quick_cmd": "./check %s quick" % pid,
            "thorough_cmd": "./check %s thorough" % pid,
            "evidence_file": "/verif/evidence/%s.json" % pid,
            "replay_cmd_template": "./check replay {path}",
            "engine": "xsup",
            "level_claimed": {"category": cat, "text": text, "design_ref": "DESIGN.md section 5, " + pid},
            "level_note": note,
            "technique": tech,
        })
    na = [{"property_id": p, "reason": NOT_YET.get(p, "check not built yet in this round (work in progress); the plan is in DESIGN.md section 5")} for p in ALL if p not in CLAIMED]
    m = {
        "version": 1,
        "setup_cmd": "./check setup",
        "hooks": {
            "guard": "--cfg tarka_xcp_verif",
            "enable": "RUSTFLAGS='--cfg tarka_xcp_verif' CARGO_TARGET_DIR=/verif/.cache/target-repo cargo build --offline (done by ./check)",
            "baseline_off_cmd": "cd /repo && cargo test --workspace --no-fail-fast --offline",
            "source_commits": HOOK_COMMITS,
            "add_only": True,
        },
        "engines": [
            {"name": "xsup", "path": "harness/src/sup.rs", "serves_properties": sorted(CLAIMED.keys()),
             "kind_free_text": "ptrace supervisor: serialises all threads of the real binary at system-call boundaries, emulates futex, explores scheduling deviations / injected errnos / clamped lengths / kill points exhaustively up to a bound"},
            {"name": "scen", "path": "harness/src/model.rs", "serves_properties": sorted(CLAIMED.keys()),
             "kind_free_text": "bounded-exhaustive scenario enumeration against a reference model of cp's mapping rule"},
        ],
        "checks": checks,
        "not_applicable": na,
        "notes": "exit 0 = held, 1 = VIOLATION line printed, 2 = machinery failure. Known findings: /verif/known_findings.json.",
    }
    if not na:
        del m["not_applicable"]
    json.dump(m, open(os.path.join(V, "MANIFEST.json"), "w"), indent=1)
    print("claimed:", len(checks), "not claimed:", len(na))

HOOK_COMMITS = ["c2ec1c2"]
if __name__ == "__main__":
    main()
