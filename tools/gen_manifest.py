#!/usr/bin/env python3
"""Regenerates /verif/MANIFEST.json from the table below (kept in one place so it stays valid)."""
import json, os
V = os.path.dirname(os.path.dirname(os.path.abspath(__file__)))

# id -> (category, technique, text, note)   ; only properties whose check is built and passing are listed
CLAIMED = {
 "C06": ("model_checking", "stateless model checking of the real binary: deviation-bounded exhaustive schedule search at system-call granularity (xsup)",
         "Every execution of the real xcp binary with <= d scheduling deviations from two base policies is run on scenario sets S1-S4 (both drivers, workers 1..64); each must exit 0, equal the reference tree incl. mode and mtime, and satisfy the trace monitors (directory exists before anything is created in it; no data write after metadata was applied).",
         "Pre-emption only at visible system calls / hook markers; dependencies (crossbeam-channel, blocking-threadpool, Arc) trusted; bound d=1 (quick: 2 on the tiny scenario) / d=2 (thorough: 3 on tiny); see DESIGN 3.1.7, 10."),
}
ALL = ["C%02d" % i for i in range(1, 21)]
NOT_YET = {}

def main():
    checks = []
    for pid in ALL:
        if pid not in CLAIMED:
            continue
        cat, tech, text, note = CLAIMED[pid]
        checks.append({
            "property_id": pid,
            "quick_cmd": "./check %s quick" % pid,
            "thorough_cmd": "./check %s thorough" % pid,
            "evidence_file": "/verif/evidence/%s.json" % pid,
            "replay_cmd_template": "./check replay {path}",
            "engine": "xsup",
            "level_claimed": {"category": cat, "text": text, "design_ref": "DESIGN.md section 5, " + pid},
            "level_note": note,
            "technique": tech,
        })
    na = [{"property_id": p, "reason": NOT_YET.get(p, "check not built yet in this round (work in progress); the plan is in DESIGN.md section 5")} for p in ALL if p not in CLAIMED]
    m = {
        "version": 1,
        "setup_cmd": "./check setup",
        "hooks": {
            "guard": "--cfg tarka_xcp_verif",
            "enable": "RUSTFLAGS='--cfg tarka_xcp_verif' CARGO_TARGET_DIR=/verif/.cache/target-repo cargo build --offline (done by ./check)",
            "baseline_off_cmd": "cd /repo && cargo test --workspace --no-fail-fast --offline",
            "source_commits": HOOK_COMMITS,
            "add_only": True,
        },
        "engines": [
            {"name": "xsup", "path": "harness/src/sup.rs", "serves_properties": sorted(CLAIMED.keys()),
             "kind_free_text": "ptrace supervisor: serialises all threads of the real binary at system-call boundaries, emulates futex, explores scheduling deviations / injected errnos / clamped lengths / kill points exhaustively up to a bound"},
            {"name": "scen", "path": "harness/src/model.rs", "serves_properties": sorted(CLAIMED.keys()),
             "kind_free_text": "bounded-exhaustive scenario enumeration against a reference model of cp's mapping rule"},
        ],
        "checks": checks,
        "not_applicable": na,
        "notes": "exit 0 = held, 1 = VIOLATION line printed, 2 = machinery failure. Known findings: /verif/known_findings.json.",
    }
    if not na:
        del m["not_applicable"]
    json.dump(m, open(os.path.join(V, "MANIFEST.json"), "w"), indent=1)
    print("claimed:", len(checks), "not claimed:", len(na))

HOOK_COMMITS = []
if __name__ == "__main__":
    main()
