#!/bin/bash
# tools/try_seed.sh <patch.diff> <check> [<check>...]   apply a seeded change to /repo, run checks, undo
patch="$1"; shift
cd /repo || exit 2
git diff --quiet || { echo "/repo working tree not clean"; exit 2; }
git apply --check "$patch" || { echo "patch does not apply"; exit 2; }
git apply "$patch"
for chk in "$@"; do
  tier=quick; case "$chk" in *:thorough) tier=thorough; chk=${chk%%:*};; esac
  s=$(date +%s)
  out=$(/verif/check $chk $tier 2>&1); rc=$?
  e=$(date +%s)
  echo "$chk $tier rc=$rc $((e-s))s $(echo "$out" | grep -E "^$chk $tier" | sed -E 's/.*(violations=[0-9]+).*/\1/')"
  echo "$out" | grep -E "^\s+\[[0-9]+x\]" | head -4
  echo "$out" | grep -E "^MACHINERY" | head -3
done
git checkout -- . ; git status --short | head -3
