#!/bin/bash
# applies every seeded change under /verif/seeded to /repo in turn, runs the check of the property it breaks
# (quick tier), undoes it; prints one line per seed. Expect rc=1 everywhere.
cd /verif/seeded || exit 2
for d in */; do
  d=${d%/}
  prop=$(python3 -c "import json;print(json.load(open('$d/meta.json'))['breaks_property'])")
  out=$(/verif/tools/try_seed.sh /verif/seeded/$d/patch.diff $prop 2>&1 | head -1)
  echo "$d -> $out"
done
