#!/bin/bash
# runs the repository's test suite (guard off) and compares the failing set with the baseline's always_fail list
cd ${1:-/repo} || exit 2
out=$(CARGO_NET_OFFLINE=true cargo test --workspace --no-fail-fast --offline 2>&1)
failed=$(echo "$out" | grep -E "^test .* \.\.\. FAILED" | sed -E 's/^test (.*) \.\.\. FAILED/\1/' | sort | tr '\n' ' ')
passed=$(echo "$out" | grep -E "^test result" | sed -E 's/.* ([0-9]+) passed.*/\1/' | paste -sd+ | bc)
expected="dest_file_exists_not_writable::test_with_parallel_block_driver dest_file_exists_not_writable::test_with_parallel_file_driver linux::tests::test_reflink test::file_copy_reflink_always::test_with_parallel_block_driver test::file_copy_reflink_always::test_with_parallel_file_driver unreadable_file_error::test_with_parallel_block_driver unreadable_file_error::test_with_parallel_file_driver "
echo "passed=$passed failed: $failed"
if echo "$out" | grep -q "could not compile"; then echo "SUITE: DOES NOT COMPILE"; echo "$out" | grep -E "^error" -A6 | head -30; exit 1; fi
if [ "$failed" = "$expected" ] && [ "$passed" -ge 128 ]; then echo "SUITE: baseline (same 7 always-failing tests, $passed passed)"; exit 0; else echo "SUITE: DIFFERS FROM BASELINE"; exit 1; fi
