#!/bin/bash
# For each fix: commit in /repo, revert it in the working tree (no commit), run the checks that should
# notice, restore. Prints one line per (fix, check). Demonstrates that the checks detect each repaired defect.
cd /repo || exit 2
git diff --quiet || { echo "/repo working tree not clean"; exit 2; }
run() { # $1 = grep pattern of commit subject, rest = checks
  pat="$1"; shift
  c=$(git log --format='%h %s' | grep -F "$pat" | head -1 | cut -d' ' -f1)
  [ -n "$c" ] || { echo "no commit for $pat"; return; }
  if ! git revert -n "$c" >/dev/null 2>&1; then echo "$c ($pat): revert conflicts, skipped"; git revert --abort 2>/dev/null; git reset -q --hard HEAD; return; fi
  for chk in "$@"; do
    out=$(/verif/check $chk quick 2>&1); rc=$?
    nv=$(echo "$out" | grep -c "^VIOLATION")
    echo "$c revert [$pat] -> $chk rc=$rc violation_lines=$nv $(echo "$out" | grep -E "^$chk quick" | sed -E 's/.*(violations=[0-9]+).*/\1/')"
  done
  git revert --abort 2>/dev/null; git reset -q --hard HEAD
}
run "report failures of chmod" C04
run "parfile driver reports a failed symlink" C04 C02
run "refuse to copy a file onto itself" C03
run "parblock completes a block" C05
run "recognise numbered backups" C09
run "apply ownership before permissions" C10
run "descends into directories behind symbolic links" C13
run "copy_node() recreates device nodes" C14
run "no longer matches the source root" C17
run "treats a dangling symbolic link" C08
run "errors while probing the destination" C04
run "do not delete a special file" C03
run "refuse an existing destination that is not a regular file" C07
run "do not read a .gitignore that is not a regular file" C07
git status --short | head -3
