#!/bin/bash
# runs every quick (or thorough) check once; prints one line per property
# tools/run_all.sh [quick|thorough] [NN ...]   (optional list of two-digit property numbers, in the order given)
tier=${1:-quick}
shift
ids="$*"; [ -n "$ids" ] || ids=$(seq -w 1 20)
cd "$(dirname "$0")/.."
for i in $ids; do
  s=$(date +%s.%N)
  out=$(./check C$i $tier 2>&1); rc=$?
  e=$(date +%s.%N)
  printf "C%s rc=%d %.1fs  %s\n" $i $rc $(echo "$e-$s" | bc) "$(echo "$out" | grep -E "^C$i $tier" | cut -c1-200)"
  echo "$out" | grep -E "^(VIOLATION|KNOWN-FINDING|MACHINERY)" | head -5
done
